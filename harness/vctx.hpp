// vctx.hpp -- rewinding contexts for a rule under test U (DESIGN.md 4.1, family "ctx")
#pragma once
#include "vruns.hpp"

namespace vt
{
   using namespace tao::pegtl;

   // U as a user-named rule with actions: fam1 void apply, fam2 bool apply (veto), fam3 void apply0
   template< typename U >
   struct KN : U
   {
      static constexpr int vid = 1;
      static constexpr long long ak = 0x2310;
   };

   template< typename U > struct K1 : seq< U, eof > {};                                   // top-level, inherits M
   template< typename U > struct K2 : sor< U, success > {};                               // non-last alternative: required
   template< typename U > struct K3 : seq< any, sor< U, success >, opt< any > > {};       // required, at offset 1
   template< typename U > struct K4 : seq< at< U >, not_at< U, any, any > > {};           // look-ahead
   template< typename U > struct K5 : seq< sor< KN< U >, success >, opt< KN< U > > > {};  // with an action: guard moves into match()
   template< typename U > struct K6 : seq< until< U >, opt< any > > {};                   // condition of until: required, at every offset
   template< typename U > struct K7 : seq< opt< U, one< '!' > >, rep_min_max< 0, 2, U > > {};  // optional inside seq; repetition
   template< typename U > struct K8 : sor< seq< U, one< '!' > >, seq< any, U >, U > {};   // optional first, optional after consumption, last alternative

   // bounds contexts (C03): plain, inside the inner input of rematch, under a lowered end (limit_bytes< 2 >, family 4)
   template< typename U > struct OB : seq< U, opt< any > > {};
   template< typename U > struct OR : seq< opt< rematch< until< one< '!' > >, seq< opt< any >, U > > >, star< any > > {};
   template< typename U > struct OLn : seq< U > { static constexpr int vid = 2; static constexpr int lim = 2002; };
   template< typename U > struct OL : seq< opt< any >, opt< OLn< U > >, star< any > > {};

   template< typename U >
   void oob_all( const std::string& sigma, int maxlen )
   {
      cfgs_oob< OB< U > >( sigma, maxlen );
      cfgs_oob< OR< U > >( sigma + "!", maxlen );
      cfgs_oob4< OL< U > >( sigma, maxlen );
   }

   template< typename U >
   void ctx_all( const std::string& sigma, int maxlen )
   {
      cfgs_light< K1< U > >( sigma, maxlen );
      cfgs_light< K2< U > >( sigma, maxlen );
      cfgs_light< K3< U > >( sigma, maxlen );
      cfgs_light< K4< U > >( sigma, maxlen );
      run_strings< K5< U >, fam1, tc_full_uw, AA, MR, TE, LFCRLF >( sigma, maxlen );
      run_strings< K5< U >, fam2, tc_hid, AA, MO, TL, LFCRLF >( sigma, maxlen );
      run_strings< K5< U >, fam3, tc_full, AA, MR, TE, LFCRLF >( sigma, maxlen );
      cfgs_light< K6< U > >( sigma, maxlen );
      cfgs_light< K7< U > >( sigma, maxlen );
      cfgs_light< K8< U > >( sigma, maxlen );
   }

   // fewer contexts for rules with large input spaces
   template< typename U >
   void ctx_few( const std::string& sigma, int maxlen )
   {
      run_strings< K1< U >, pegtl::nothing, tc_full_uw, AA, MR, TE, LFCRLF >( sigma, maxlen );
      run_strings< K3< U >, pegtl::nothing, tc_full_uw, AA, MR, TL, LFCRLF >( sigma, maxlen );
      run_strings< K5< U >, fam2, tc_hid, AA, MO, TE, LFCRLF >( sigma, maxlen );
      run_strings< K8< U >, pegtl::nothing, tc_full_uw, AA, MO, TE, LFCRLF >( sigma, maxlen );
   }
}  // namespace vt
