// obs_main.cpp -- function observations for the data properties (DESIGN.md 2.3 "obs").
//   obs_main <out-prefix> <section> <tier> [seed]
// Each record is one call of a real PEGTL helper / rule with its inputs and what it returned; TLC judges it
// (spec/ObsContract.tla).  Nothing is decided here.
#include <cstdint>
#include <cstdio>
#include <cstdlib>
#include <cstring>
#include <random>
#include <string>
#include <vector>

#include <tao/pegtl.hpp>
#include <tao/pegtl/contrib/integer.hpp>
#include <tao/pegtl/contrib/raw_string.hpp>
#include <tao/pegtl/contrib/unescape.hpp>

#include "vtrace.hpp"

using namespace tao::pegtl;

static vt::Writer W;

static void rec_begin( const char* f )
{
   W.maybe_rotate();
   W.s( "{\"f\":\"" );
   W.s( f );
   W.s( "\"" );
}
static void rec_end()
{
   W.s( "}\n" );
   W.maybe_flush();
}
static void put_bytes( const char* k, const std::string& s )
{
   W.bytes( k, s.data(), s.size() );
}

// exact-size heap copy: no terminator behind the data
struct Blk
{
   char* p;
   std::size_t n;
   explicit Blk( const std::string& s )
      : p( static_cast< char* >( std::malloc( s.size() ? s.size() : 1 ) ) ), n( s.size() )
   {
      std::memcpy( p, s.data(), s.size() );
   }
   ~Blk()
   {
      std::free( p );
   }
   Blk( const Blk& ) = delete;
   void operator=( const Blk& ) = delete;
};

// ------------------------------------------------------------------------------------------------ C19 lines

template< tracking_mode T, typename Eol >
static void lines_one( const std::string& w, std::size_t k, int eolid, std::size_t ib, std::size_t il, std::size_t ic )
{
   Blk b( w );
   memory_input< T, Eol, std::string > in( b.p, b.p + b.n, "src", ib, il, ic );
   for( std::size_t j = 0; j < k; ++j ) {
      in.bump( 1 );
   }
   const auto p = in.position();
   const char* at = in.at( p );
   const char* bl = in.begin_of_line( p );
   // end_of_line() scans forward from at(): only call it when at() lies inside the data, otherwise the scan itself
   // would run outside the allocation; the out-of-range at() is what gets reported
   const bool at_ok = ( at >= b.p ) && ( at <= b.p + b.n );
   long long el = -99999, lo = -99999, ln = -99999;
   if( at_ok ) {
      el = in.end_of_line( p ) - b.p;
      if( bl >= b.p && bl <= b.p + b.n ) {
         const auto la = in.line_at( p );
         lo = la.data() - b.p;
         ln = (long long)la.size();
      }
   }
   rec_begin( "lines" );
   put_bytes( "w", w );
   W.kv( "k", (long long)k );
   W.kv( "eol", eolid );
   W.kv( "trk", T == tracking_mode::eager ? 0 : 1 );
   W.kv( "ib", (long long)ib );
   W.kv( "il", (long long)il );
   W.kv( "ic", (long long)ic );
   W.kv( "pb", (long long)p.byte );
   W.kv( "pl", (long long)p.line );
   W.kv( "pc", (long long)p.column );
   W.kv( "at", at - b.p );
   W.kv( "bl", bl - b.p );
   W.kv( "el", el );
   W.kv( "lo", lo );
   W.kv( "ln", ln );
   rec_end();
}

template< typename Eol >
static void lines_eol( const std::string& w, int eolid )
{
   for( std::size_t k = 0; k <= w.size(); ++k ) {
      lines_one< tracking_mode::eager, Eol >( w, k, eolid, 0, 1, 1 );
      lines_one< tracking_mode::lazy, Eol >( w, k, eolid, 0, 1, 1 );
      lines_one< tracking_mode::eager, Eol >( w, k, eolid, 10, 3, 5 );
      lines_one< tracking_mode::lazy, Eol >( w, k, eolid, 10, 3, 5 );
   }
}

static void section_lines( bool thorough )
{
   vt::for_all_strings( std::string( "\n\ra", 3 ), thorough ? 6 : 4, [ & ]( const std::string& w ) {
      lines_eol< eol::lf >( w, 0 );
      lines_eol< eol::cr >( w, 1 );
      lines_eol< eol::crlf >( w, 2 );
      lines_eol< eol::lf_crlf >( w, 3 );
      lines_eol< eol::cr_crlf >( w, 4 );
   } );
}

// ------------------------------------------------------------------------------------------------ C17 unescape

static void u8app( std::uint32_t cp )
{
   std::string s = "#";
   const bool ok = unescape::utf8_append_utf32( s, cp );
   rec_begin( "u8app" );
   W.kv( "hi", (long long)( cp >> 16 ) );
   W.kv( "lo", (long long)( cp & 0xffff ) );
   W.kv( "ok", ok ? 1 : 0 );
   put_bytes( "out", s.substr( 1 ) );
   W.kv( "kept", s[ 0 ] == '#' ? 1 : 0 );
   rec_end();
}

static void unj( const std::vector< unsigned >& units )
{
   std::string text;
   for( std::size_t i = 0; i < units.size(); ++i ) {
      char tmp[ 16 ];
      std::snprintf( tmp, sizeof tmp, i ? "\\u%04X" : "u%04x", units[ i ] );
      text += tmp;
   }
   Blk b( text );
   memory_input<> in( b.p, b.p + b.n, "src" );
   in.bump( b.n );
   const internal::action_input< memory_input<> > ai( internal::inputerator( b.p ), in );
   std::string s;
   int ok = 1;
   try {
      ok = unescape::unescape_j::apply( ai, s ) ? 1 : 0;
   }
   catch( const parse_error& ) {
      ok = 2;
   }
   rec_begin( "unj" );
   W.s( ",\"units\":[" );
   for( std::size_t i = 0; i < units.size(); ++i ) {
      if( i )
         W.s( "," );
      W.i( units[ i ] );
   }
   W.s( "]" );
   W.kv( "ok", ok );
   put_bytes( "out", s );
   rec_end();
}

static void unu( const std::string& digits )
{
   const std::string text = "u" + digits;
   Blk b( text );
   memory_input<> in( b.p, b.p + b.n, "src" );
   in.bump( b.n );
   const internal::action_input< memory_input<> > ai( internal::inputerator( b.p ), in );
   std::string s;
   int ok = 1;
   try {
      unescape::unescape_u::apply( ai, s );
   }
   catch( const parse_error& ) {
      ok = 2;
   }
   rec_begin( "unu" );
   put_bytes( "digits", digits );
   W.kv( "ok", ok );
   put_bytes( "out", s );
   rec_end();
}

static void unx( const std::string& digits )
{
   const std::string text = "x" + digits;
   Blk b( text );
   memory_input<> in( b.p, b.p + b.n, "src" );
   in.bump( b.n );
   const internal::action_input< memory_input<> > ai( internal::inputerator( b.p ), in );
   std::string s;
   unescape::unescape_x::apply( ai, s );
   rec_begin( "unx" );
   put_bytes( "digits", digits );
   put_bytes( "out", s );
   rec_end();
}

template< typename I >
static void unhex( const std::string& digits, int bits )
{
   Blk b( digits );
   const I v = unescape::unhex_string< I >( b.p, b.p + b.n );
   const std::uint64_t u = static_cast< std::uint64_t >( static_cast< std::make_unsigned_t< I > >( v ) );
   rec_begin( "unhex" );
   put_bytes( "digits", digits );
   W.kv( "bits", bits );
   W.kv( "v3", (long long)( ( u >> 48 ) & 0xffff ) );
   W.kv( "v2", (long long)( ( u >> 32 ) & 0xffff ) );
   W.kv( "v1", (long long)( ( u >> 16 ) & 0xffff ) );
   W.kv( "v0", (long long)( u & 0xffff ) );
   rec_end();
}

static void unc()
{
   using esc = one< '"', '\\', '/', 'b', 'f', 'n', 'r', 't', '0', 'a', 'v' >;
   using act = unescape::unescape_c< esc, '"', '\\', '/', '\b', '\f', '\n', '\r', '\t', '\0', '\a', '\v' >;
   const std::string q = "\"\\/bfnrt0av";
   const std::string r( "\"\\/\b\f\n\r\t\0\a\v", 11 );
   for( char c : q ) {
      std::string text( 1, c );
      Blk b( text );
      memory_input<> in( b.p, b.p + b.n, "src" );
      in.bump( 1 );
      const internal::action_input< memory_input<> > ai( internal::inputerator( b.p ), in );
      std::string s;
      act::apply( ai, s );
      rec_begin( "unc" );
      put_bytes( "q", q );
      put_bytes( "r", r );
      W.kv( "c", (unsigned char)c );
      put_bytes( "out", s );
      rec_end();
   }
}

static void section_unescape( bool thorough, unsigned seed )
{
   // code points: boundaries +-2, high values, then a seeded sample (quick) or everything (thorough)
   const std::uint32_t bnd[] = { 0x0, 0x7f, 0x80, 0x7ff, 0x800, 0xd7ff, 0xd800, 0xdbff, 0xdc00, 0xdfff, 0xe000, 0xffff, 0x10000, 0x10ffff, 0x110000, 0x1fffff, 0x200000, 0x7fffffff, 0x80000000u, 0xffffffffu };
   for( std::uint32_t c : bnd ) {
      for( int d = -2; d <= 2; ++d ) {
         const std::uint64_t x = std::uint64_t( c ) + std::uint64_t( std::int64_t( d ) );
         if( x <= 0xffffffffull ) {
            u8app( std::uint32_t( x ) );
         }
      }
   }
   if( thorough ) {
      for( std::uint32_t c = 0; c < 0x110100; ++c ) {
         u8app( c );
      }
   }
   else {
      std::mt19937 rng( seed );
      for( int i = 0; i < 20000; ++i ) {
         u8app( std::uint32_t( rng() % 0x110100 ) );
      }
      for( int i = 0; i < 2000; ++i ) {
         u8app( std::uint32_t( rng() ) );
      }
   }
   // unescape_j: all sequences of 1..3 escapes from boundary classes
   const unsigned cls[] = { 0x0000, 0x0041, 0x007f, 0x0080, 0x07ff, 0x0800, 0xd7ff, 0xd800, 0xd801, 0xdbff, 0xdc00, 0xdc01, 0xdfff, 0xe000, 0xffff };
   for( unsigned a : cls ) {
      unj( { a } );
      for( unsigned b2 : cls ) {
         unj( { a, b2 } );
         for( unsigned c : cls ) {
            unj( { a, b2, c } );
         }
      }
   }
   // unescape_u / unescape_x / unhex_string
   const char* hex = "0123456789abcdefABCDEF";
   const std::string hd = thorough ? std::string( "0189afAFdD7eE" ) : std::string( "01fFdD8" );
   vt::for_all_strings( hd, thorough ? 5 : 4, [ & ]( const std::string& s ) {
      if( !s.empty() ) {
         unu( s );
         unhex< std::uint32_t >( s, 32 );
         if( s.size() <= 4 ) {
            unhex< std::uint16_t >( s, 16 );
         }
      }
   } );
   for( const char* spec : { "10ffff", "110000", "00d800", "0010FFFF", "7fffffff", "ffffffff", "0000dfff", "0001F600" } ) {
      unu( spec );
      unhex< std::uint32_t >( spec, 32 );
      unhex< std::uint64_t >( spec, 64 );
   }
   unhex< std::uint64_t >( "ffffffffffffffff", 64 );
   unhex< std::uint64_t >( "8000000000000001", 64 );
   unhex< std::uint64_t >( "0123456789abcdef", 64 );
   for( int i = 0; i < 22; ++i ) {
      for( int j = 0; j < 22; ++j ) {
         const std::string s = { hex[ i ], hex[ j ] };
         unx( s );
         unhex< std::uint8_t >( s, 8 );
         unhex< char >( s, 8 );
      }
   }
   unc();
}

// ------------------------------------------------------------------------------------------------ C16 raw_string

struct RawState
{
   long long cb = -1, ce = -1;
   int calls = 0;
   const char* base = nullptr;
};

template< typename Rule >
struct raw_action : nothing< Rule >
{};

template< typename Raw >
struct raw_content_action
{
   // the content rule is matched with the marker size as an additional first state
   template< typename AI >
   static void apply( const AI& ai, const std::size_t& /*marker_size*/, RawState& st )
   {
      st.cb = ai.begin() - st.base;
      st.ce = ai.end() - st.base;
      ++st.calls;
   }
};

using raw0 = raw_string< '[', '=', ']' >;
using raw1 = raw_string< '{', '*', '}' >;
using raw2 = raw_string< '[', '=', ']', any >;
using raw3 = raw_string< '[', '=', ']', not_one< 'x' > >;
using raw4 = raw_string< '[', '=', ']', one< 'a' >, opt< one< 'b' > > >;
template<> struct raw_action< raw0::content > : raw_content_action< raw0 > {};
template<> struct raw_action< raw1::content > : raw_content_action< raw1 > {};
template<> struct raw_action< raw2::content > : raw_content_action< raw2 > {};
template<> struct raw_action< raw3::content > : raw_content_action< raw3 > {};
template<> struct raw_action< raw4::content > : raw_content_action< raw4 > {};

template< typename Raw, typename Eol >
static void raw_one( const std::string& w, int variant, int eolid )
{
   Blk b( w );
   memory_input< tracking_mode::eager, Eol, std::string > in( b.p, b.p + b.n, "src" );
   RawState st;
   st.base = b.p;
   int res;
   try {
      res = parse< Raw, raw_action, normal, apply_mode::action, rewind_mode::required >( in, st ) ? 1 : 0;
   }
   catch( const parse_error& ) {
      res = 2;
   }
   rec_begin( "raw" );
   put_bytes( "w", w );
   W.kv( "var", variant );
   W.kv( "eol", eolid );
   W.kv( "res", res );
   W.kv( "n", in.current() - b.p );
   W.kv( "cb", st.cb );
   W.kv( "ce", st.ce );
   W.kv( "calls", st.calls );
   W.kv( "pb", (long long)in.position().byte );
   W.kv( "pl", (long long)in.position().line );
   W.kv( "pc", (long long)in.position().column );
   rec_end();
}

template< typename Raw >
static void raw_all_eol( const std::string& w, int variant, bool all )
{
   raw_one< Raw, eol::lf_crlf >( w, variant, 3 );
   if( all ) {
      raw_one< Raw, eol::lf >( w, variant, 0 );
      raw_one< Raw, eol::cr >( w, variant, 1 );
      raw_one< Raw, eol::crlf >( w, variant, 2 );
      raw_one< Raw, eol::cr_crlf >( w, variant, 4 );
   }
}

static void section_raw( bool thorough, unsigned seed )
{
   vt::for_all_strings( std::string( "[]=\n\rx", 6 ), thorough ? 8 : 6, [ & ]( const std::string& w ) {
      const bool nl = w.find_first_of( "\n\r" ) != std::string::npos;
      raw_all_eol< raw0 >( w, 0, nl );
      raw_one< raw2, eol::lf_crlf >( w, 2, 3 );
      raw_one< raw3, eol::lf_crlf >( w, 3, 3 );
   } );
   vt::for_all_strings( std::string( "{}*[=x", 6 ), thorough ? 7 : 5, [ & ]( const std::string& w ) {
      raw_one< raw1, eol::lf_crlf >( w, 1, 3 );
   } );
   vt::for_all_strings( std::string( "[]=ab", 5 ), thorough ? 8 : 6, [ & ]( const std::string& w ) {
      raw_one< raw4, eol::lf_crlf >( w, 4, 3 );
   } );
   // longer random strings
   std::mt19937 rng( seed );
   const std::string sig = "[[]]===\n\rxa";
   for( int i = 0; i < ( thorough ? 60000 : 4000 ); ++i ) {
      std::string w;
      const int len = 8 + int( rng() % 24 );
      for( int j = 0; j < len; ++j ) {
         w += sig[ rng() % sig.size() ];
      }
      if( rng() % 2 ) {
         w = "[" + std::string( rng() % 3, '=' ) + "[" + w;
      }
      raw_all_eol< raw0 >( w, 0, true );
      raw_one< raw3, eol::lf_crlf >( w, 3, 3 );
   }
}

// ------------------------------------------------------------------------------------------------ C15 integer

template< typename T >
static std::string dec( T v )
{
   if constexpr( std::is_signed_v< T > ) {
      const long long x = (long long)v;
      return std::to_string( x );
   }
   else {
      const unsigned long long x = (unsigned long long)v;
      return std::to_string( x );
   }
}

static void int_rec( const char* rule, int bits, int sgn, const std::string& maxs, const std::string& w, int res, long long n, const std::string& stored, const std::string& msg )
{
   rec_begin( "int" );
   W.str( "rule", rule );
   W.kv( "bits", bits );
   W.kv( "sgn", sgn );
   put_bytes( "max", maxs );
   put_bytes( "w", w );
   W.kv( "res", res );
   W.kv( "n", n );
   put_bytes( "stored", stored );
   W.str( "msg", msg );
   rec_end();
}

template< typename Rule >
static void int_syntax( const char* name, const std::string& w, const std::string& maxs = std::string() )
{
   Blk b( w );
   memory_input<> in( b.p, b.p + b.n, "src" );
   int res;
   std::string msg;
   try {
      res = parse< Rule, nothing, normal, apply_mode::action, rewind_mode::required >( in ) ? 1 : 0;
   }
   catch( const parse_error& e ) {
      res = 2;
      msg = std::string( e.message() );
   }
   int_rec( name, 0, 0, maxs, w, res, in.current() - b.p, "", msg );
}

template< typename Rule, typename T >
static void int_store( const char* name, const std::string& maxs, const std::string& w )
{
   Blk b( w );
   memory_input<> in( b.p, b.p + b.n, "src" );
   T st = T( 77 );
   int res;
   std::string msg;
   try {
      res = parse< Rule, nothing, normal, apply_mode::action, rewind_mode::required >( in, st ) ? 1 : 0;
   }
   catch( const parse_error& e ) {
      res = 2;
      msg = std::string( e.message() );
   }
   int_rec( name, int( sizeof( T ) * 8 ), std::is_signed_v< T > ? 1 : 0, maxs, w, res, in.current() - b.p, res == 1 ? dec( st ) : std::string(), msg );
}

// the stand-alone actions: applied to what the syntax rule matched
template< typename Rule >
struct ua : nothing< Rule >
{};
template<>
struct ua< unsigned_rule > : unsigned_action
{};
template< typename Rule >
struct sa : nothing< Rule >
{};
template<>
struct sa< signed_rule > : signed_action
{};
template< typename T, T Max >
struct ma
{
   template< typename Rule >
   struct type : nothing< Rule >
   {};
};
template< typename Rule, template< typename... > class Act, typename T >
static void int_action( const char* name, const std::string& maxs, const std::string& w )
{
   Blk b( w );
   memory_input<> in( b.p, b.p + b.n, "src" );
   T st = T( 77 );
   int res;
   std::string msg;
   try {
      res = parse< Rule, Act, normal, apply_mode::action, rewind_mode::required >( in, st ) ? 1 : 0;
   }
   catch( const parse_error& e ) {
      res = 2;
      msg = std::string( e.message() );
   }
   int_rec( name, int( sizeof( T ) * 8 ), std::is_signed_v< T > ? 1 : 0, maxs, w, res, in.current() - b.p, res == 1 ? dec( st ) : std::string(), msg );
}

template< typename T >
static std::string maxdec()
{
   return dec( ( std::numeric_limits< T >::max )() );
}

template< typename U >
static void int_unsigned_type( const std::string& w )
{
   int_store< unsigned_rule_with_action, U >( "unsigned_rule_with_action", maxdec< U >(), w );
   int_action< unsigned_rule, ua, U >( "unsigned_action", maxdec< U >(), w );
   int_syntax< maximum_rule< U > >( "maximum_rule", w, maxdec< U >() );
   int_store< maximum_rule_with_action< U >, U >( "maximum_rule_with_action", maxdec< U >(), w );
}
template< typename S >
static void int_signed_type( const std::string& w )
{
   int_store< signed_rule_with_action, S >( "signed_rule_with_action", maxdec< S >(), w );
   int_action< signed_rule, sa, S >( "signed_action", maxdec< S >(), w );
}

template< typename U, U Max >
static void int_max( const std::string& w )
{
   int_syntax< maximum_rule< U, Max > >( "maximum_rule", w, dec( Max ) );
   int_store< maximum_rule_with_action< U, Max >, U >( "maximum_rule_with_action", dec( Max ), w );
}

static void int_all( const std::string& w )
{
   int_syntax< unsigned_rule >( "unsigned_rule", w );
   int_syntax< signed_rule >( "signed_rule", w );
   int_unsigned_type< std::uint8_t >( w );
   int_unsigned_type< std::uint16_t >( w );
   int_unsigned_type< std::uint32_t >( w );
   int_unsigned_type< std::uint64_t >( w );
   int_signed_type< std::int8_t >( w );
   int_signed_type< std::int16_t >( w );
   int_signed_type< std::int32_t >( w );
   int_signed_type< std::int64_t >( w );
   int_max< std::uint8_t, 9 >( w );
   int_max< std::uint8_t, 10 >( w );
   int_max< std::uint8_t, 99 >( w );
   int_max< std::uint8_t, 100 >( w );
   int_max< std::uint16_t, 999 >( w );
   int_max< std::uint16_t, 1000 >( w );
   int_max< std::uint16_t, 1001 >( w );
   int_max< std::uint32_t, 99999 >( w );
   int_max< std::uint32_t, 100000 >( w );
   int_max< std::uint64_t, 0 >( w );
   int_max< std::uint64_t, 1 >( w );
}

static std::string add_dec( const std::string& a, long long d )
{
   // a + d for a decimal string a >= 0, result clipped at 0
   __int128 v = 0;
   for( char c : a )
      v = v * 10 + ( c - '0' );
   v += d;
   if( v < 0 )
      v = 0;
   std::string r;
   if( v == 0 )
      r = "0";
   while( v > 0 ) {
      r.insert( r.begin(), char( '0' + int( v % 10 ) ) );
      v /= 10;
   }
   return r;
}

static void section_integer( bool thorough )
{
   // exhaustive small numerals x signs x trailing byte
   const std::string trail[] = { "", "0", "7", "x", "-" };
   vt::for_all_strings( "0129", thorough ? 5 : 4, [ & ]( const std::string& d ) {
      for( const char* sign : { "", "-", "+" } ) {
         for( const std::string& t : trail ) {
            int_all( std::string( sign ) + d + t );
         }
      }
   } );
   // all numerals up to one digit beyond the width of 8-bit targets are covered above for digits {0,1,2,9};
   // boundary neighbourhoods of every type's limits and of the powers of ten
   std::vector< std::string > b = { "127", "128", "255", "256", "32767", "32768", "65535", "65536", "2147483647", "2147483648", "4294967295", "4294967296",
                                    "9223372036854775807", "9223372036854775808", "18446744073709551615", "18446744073709551616",
                                    "10", "100", "1000", "10000", "100000", "1000000" };
   const int span = thorough ? 12 : 3;
   for( const std::string& x : b ) {
      for( int d = -span; d <= span; ++d ) {
         const std::string v = add_dec( x, d );
         for( const char* sign : { "", "-", "+" } ) {
            int_all( std::string( sign ) + v );
            int_all( std::string( sign ) + v + "0" );
            int_all( std::string( sign ) + "0" + v );
         }
      }
   }
   for( const char* x : { "99999999999999999999", "184467440737095516150", "340282366920938463463374607431768211456", "-99999999999999999999" } ) {
      int_all( x );
   }
   if( thorough ) {
      for( int v = 0; v < 70000; ++v ) {
         const std::string s = std::to_string( v );
         int_all( s );
         int_all( "-" + s );
      }
   }
   else {
      for( int v = 0; v < 700; ++v ) {
         const std::string s = std::to_string( v );
         int_all( s );
         int_all( "-" + s );
      }
   }
}

int main( int argc, char** argv )
{
   if( argc < 4 ) {
      std::fprintf( stderr, "usage: %s <out-prefix> <section> <quick|thorough> [seed]\n", argv[ 0 ] );
      return 3;
   }
   const std::string section = argv[ 2 ];
   const bool thorough = std::string( argv[ 3 ] ) == "thorough";
   const unsigned seed = argc > 4 ? unsigned( std::atoi( argv[ 4 ] ) ) : 1u;
   W.rotate_at = 6 << 20;
   W.open_rotating( argv[ 1 ] );
   if( section == "lines" ) {
      section_lines( thorough );
   }
   else if( section == "unescape" ) {
      section_unescape( thorough, seed );
   }
   else if( section == "raw" ) {
      section_raw( thorough, seed );
   }
   else if( section == "integer" ) {
      section_integer( thorough );
   }
   else {
      std::fprintf( stderr, "unknown section %s\n", section.c_str() );
      return 3;
   }
   W.close();
   return 0;
}
