// obs_main.cpp -- function observations for the data properties (DESIGN.md 2.3 "obs").
//   obs_main <out-prefix> <section> <tier> [seed]
// Each record is one call of a real PEGTL helper / rule with its inputs and what it returned; TLC judges it
// (spec/ObsContract.tla).  Nothing is decided here.
#include <cstdint>
#include <cstdio>
#include <cstdlib>
#include <cstring>
#include <random>
#include <string>
#include <vector>

#include <tao/pegtl.hpp>
#include <tao/pegtl/contrib/abnf.hpp>
#include <tao/pegtl/contrib/integer.hpp>
#include <tao/pegtl/contrib/json.hpp>
#include "json_unescape.hpp"   // src/example/pegtl: the JSON string unescaping built from the unescape helpers (C17)
#include <tao/pegtl/contrib/uri.hpp>
#include <dirent.h>
#include <fstream>
#include <sstream>
#include <tao/pegtl/contrib/raw_string.hpp>
#include <tao/pegtl/contrib/unescape.hpp>
#include <tao/pegtl/contrib/uint16.hpp>
#include <tao/pegtl/contrib/uint32.hpp>
#include <tao/pegtl/contrib/uint64.hpp>
#include <tao/pegtl/contrib/uint8.hpp>
#include <tao/pegtl/contrib/utf16.hpp>
#include <tao/pegtl/contrib/utf32.hpp>

#include "vtrace.hpp"

using namespace tao::pegtl;

static vt::Writer W;

static void rec_begin( const char* f )
{
   W.maybe_rotate();
   W.s( "{\"f\":\"" );
   W.s( f );
   W.s( "\"" );
}
static void rec_end()
{
   W.s( "}\n" );
   W.maybe_flush();
}
static void put_bytes( const char* k, const std::string& s )
{
   W.bytes( k, s.data(), s.size() );
}

// exact-size heap copy: no terminator behind the data
struct Blk
{
   char* p;
   std::size_t n;
   explicit Blk( const std::string& s )
      : p( static_cast< char* >( std::malloc( s.size() ? s.size() : 1 ) ) ), n( s.size() )
   {
      std::memcpy( p, s.data(), s.size() );
   }
   ~Blk()
   {
      std::free( p );
   }
   Blk( const Blk& ) = delete;
   void operator=( const Blk& ) = delete;
};

// ------------------------------------------------------------------------------------------------ C19 lines

template< tracking_mode T, typename Eol >
static void lines_one( const std::string& w, std::size_t k, int eolid, std::size_t ib, std::size_t il, std::size_t ic )
{
   Blk b( w );
   memory_input< T, Eol, std::string > in( b.p, b.p + b.n, "src", ib, il, ic );
   for( std::size_t j = 0; j < k; ++j ) {
      in.bump( 1 );
   }
   const auto p = in.position();
   const char* at = in.at( p );
   const char* bl = in.begin_of_line( p );
   // end_of_line() scans forward from at(): only call it when at() lies inside the data, otherwise the scan itself
   // would run outside the allocation; the out-of-range at() is what gets reported
   const bool at_ok = ( at >= b.p ) && ( at <= b.p + b.n );
   long long el = -99999, lo = -99999, ln = -99999;
   if( at_ok ) {
      el = in.end_of_line( p ) - b.p;
      if( bl >= b.p && bl <= b.p + b.n ) {
         const auto la = in.line_at( p );
         lo = la.data() - b.p;
         ln = (long long)la.size();
      }
   }
   rec_begin( "lines" );
   put_bytes( "w", w );
   W.kv( "k", (long long)k );
   W.kv( "eol", eolid );
   W.kv( "trk", T == tracking_mode::eager ? 0 : 1 );
   W.kv( "ib", (long long)ib );
   W.kv( "il", (long long)il );
   W.kv( "ic", (long long)ic );
   W.kv( "pb", (long long)p.byte );
   W.kv( "pl", (long long)p.line );
   W.kv( "pc", (long long)p.column );
   W.kv( "at", at - b.p );
   W.kv( "bl", bl - b.p );
   W.kv( "el", el );
   W.kv( "lo", lo );
   W.kv( "ln", ln );
   rec_end();
}

template< typename Eol >
static void lines_eol( const std::string& w, int eolid )
{
   for( std::size_t k = 0; k <= w.size(); ++k ) {
      lines_one< tracking_mode::eager, Eol >( w, k, eolid, 0, 1, 1 );
      lines_one< tracking_mode::lazy, Eol >( w, k, eolid, 0, 1, 1 );
      lines_one< tracking_mode::eager, Eol >( w, k, eolid, 10, 3, 5 );
      lines_one< tracking_mode::lazy, Eol >( w, k, eolid, 10, 3, 5 );
   }
}

static void section_lines( bool thorough )
{
   vt::for_all_strings( std::string( "\n\ra", 3 ), thorough ? 6 : 4, [ & ]( const std::string& w ) {
      lines_eol< eol::lf >( w, 0 );
      lines_eol< eol::cr >( w, 1 );
      lines_eol< eol::crlf >( w, 2 );
      lines_eol< eol::lf_crlf >( w, 3 );
      lines_eol< eol::cr_crlf >( w, 4 );
   } );
}

// ------------------------------------------------------------------------------------------------ C17 unescape

static void u8app( std::uint32_t cp )
{
   std::string s = "#";
   const bool ok = unescape::utf8_append_utf32( s, cp );
   rec_begin( "u8app" );
   W.kv( "hi", (long long)( cp >> 16 ) );
   W.kv( "lo", (long long)( cp & 0xffff ) );
   W.kv( "ok", ok ? 1 : 0 );
   put_bytes( "out", s.substr( 1 ) );
   W.kv( "kept", s[ 0 ] == '#' ? 1 : 0 );
   rec_end();
}

static void unj( const std::vector< unsigned >& units )
{
   std::string text;
   for( std::size_t i = 0; i < units.size(); ++i ) {
      char tmp[ 16 ];
      std::snprintf( tmp, sizeof tmp, i ? "\\u%04X" : "u%04x", units[ i ] );
      text += tmp;
   }
   Blk b( text );
   memory_input<> in( b.p, b.p + b.n, "src" );
   in.bump( b.n );
   const internal::action_input< memory_input<> > ai( internal::inputerator( b.p ), in );
   std::string s;
   int ok = 1;
   try {
      ok = unescape::unescape_j::apply( ai, s ) ? 1 : 0;
   }
   catch( const parse_error& ) {
      ok = 2;
   }
   rec_begin( "unj" );
   W.s( ",\"units\":[" );
   for( std::size_t i = 0; i < units.size(); ++i ) {
      if( i )
         W.s( "," );
      W.i( units[ i ] );
   }
   W.s( "]" );
   W.kv( "ok", ok );
   put_bytes( "out", s );
   rec_end();
}

// the example's JSON string unescaping: a string literal built from tokens (kind 1 literal byte, 2 simple escape with the
// character behind the backslash, 3 \\uXXXX unit), parsed with json::string, unescaped by example::json_unescape
template< typename Rule >
struct jstr_action : nothing< Rule >
{};
template<>
struct jstr_action< json::string::content > : example::json_unescape
{
   template< typename In >
   static void success( const In& /*unused*/, std::string& s, std::string& out )
   {
      out = std::move( s );
   }
};
static void jstr( const std::vector< std::pair< int, unsigned > >& toks )
{
   std::string text = "\"";
   for( const auto& t : toks ) {
      if( t.first == 1 ) {
         text += char( t.second );
      }
      else if( t.first == 2 ) {
         text += '\\';
         text += char( t.second );
      }
      else {
         char buf[ 8 ];
         std::snprintf( buf, sizeof( buf ), "\\u%04x", t.second );
         text += buf;
      }
   }
   text += "\"";
   Blk b( text );
   memory_input<> in( b.p, b.p + b.n, "src" );
   std::string out;
   int ok = 0;
   try {
      ok = parse< seq< json::string, eof >, jstr_action >( in, out ) ? 1 : 0;
   }
   catch( const parse_error& ) {
      ok = 2;
   }
   rec_begin( "jstr" );
   W.s( ",\"tk\":[" );
   for( std::size_t i = 0; i < toks.size(); ++i ) {
      if( i )
         W.s( "," );
      W.i( toks[ i ].first );
   }
   W.s( "],\"tv\":[" );
   for( std::size_t i = 0; i < toks.size(); ++i ) {
      if( i )
         W.s( "," );
      W.i( toks[ i ].second );
   }
   W.s( "]" );
   W.kv( "ok", ok );
   put_bytes( "out", out );
   rec_end();
}

static void unu( const std::string& digits )
{
   const std::string text = "u" + digits;
   Blk b( text );
   memory_input<> in( b.p, b.p + b.n, "src" );
   in.bump( b.n );
   const internal::action_input< memory_input<> > ai( internal::inputerator( b.p ), in );
   std::string s;
   int ok = 1;
   try {
      unescape::unescape_u::apply( ai, s );
   }
   catch( const parse_error& ) {
      ok = 2;
   }
   rec_begin( "unu" );
   put_bytes( "digits", digits );
   W.kv( "ok", ok );
   put_bytes( "out", s );
   rec_end();
}

static void unx( const std::string& digits )
{
   const std::string text = "x" + digits;
   Blk b( text );
   memory_input<> in( b.p, b.p + b.n, "src" );
   in.bump( b.n );
   const internal::action_input< memory_input<> > ai( internal::inputerator( b.p ), in );
   std::string s;
   unescape::unescape_x::apply( ai, s );
   rec_begin( "unx" );
   put_bytes( "digits", digits );
   put_bytes( "out", s );
   rec_end();
}

template< typename I >
static void unhex( const std::string& digits, int bits )
{
   Blk b( digits );
   const I v = unescape::unhex_string< I >( b.p, b.p + b.n );
   const std::uint64_t u = static_cast< std::uint64_t >( static_cast< std::make_unsigned_t< I > >( v ) );
   rec_begin( "unhex" );
   put_bytes( "digits", digits );
   W.kv( "bits", bits );
   W.kv( "v3", (long long)( ( u >> 48 ) & 0xffff ) );
   W.kv( "v2", (long long)( ( u >> 32 ) & 0xffff ) );
   W.kv( "v1", (long long)( ( u >> 16 ) & 0xffff ) );
   W.kv( "v0", (long long)( u & 0xffff ) );
   rec_end();
}

static void unc()
{
   using esc = one< '"', '\\', '/', 'b', 'f', 'n', 'r', 't', '0', 'a', 'v' >;
   using act = unescape::unescape_c< esc, '"', '\\', '/', '\b', '\f', '\n', '\r', '\t', '\0', '\a', '\v' >;
   const std::string q = "\"\\/bfnrt0av";
   const std::string r( "\"\\/\b\f\n\r\t\0\a\v", 11 );
   for( char c : q ) {
      std::string text( 1, c );
      Blk b( text );
      memory_input<> in( b.p, b.p + b.n, "src" );
      in.bump( 1 );
      const internal::action_input< memory_input<> > ai( internal::inputerator( b.p ), in );
      std::string s;
      act::apply( ai, s );
      rec_begin( "unc" );
      put_bytes( "q", q );
      put_bytes( "r", r );
      W.kv( "c", (unsigned char)c );
      put_bytes( "out", s );
      rec_end();
   }
}

static void section_unescape( bool thorough, unsigned seed )
{
   // code points: boundaries +-2, high values, then a seeded sample (quick) or everything (thorough)
   const std::uint32_t bnd[] = { 0x0, 0x7f, 0x80, 0x7ff, 0x800, 0xd7ff, 0xd800, 0xdbff, 0xdc00, 0xdfff, 0xe000, 0xffff, 0x10000, 0x10ffff, 0x110000, 0x1fffff, 0x200000, 0x7fffffff, 0x80000000u, 0xffffffffu };
   for( std::uint32_t c : bnd ) {
      for( int d = -2; d <= 2; ++d ) {
         const std::uint64_t x = std::uint64_t( c ) + std::uint64_t( std::int64_t( d ) );
         if( x <= 0xffffffffull ) {
            u8app( std::uint32_t( x ) );
         }
      }
   }
   if( thorough ) {
      for( std::uint32_t c = 0; c < 0x110100; ++c ) {
         u8app( c );
      }
   }
   else {
      std::mt19937 rng( seed );
      for( int i = 0; i < 20000; ++i ) {
         u8app( std::uint32_t( rng() % 0x110100 ) );
      }
      for( int i = 0; i < 2000; ++i ) {
         u8app( std::uint32_t( rng() ) );
      }
   }
   // unescape_j: all sequences of 1..3 escapes from boundary classes
   const unsigned cls[] = { 0x0000, 0x0041, 0x007f, 0x0080, 0x07ff, 0x0800, 0xd7ff, 0xd800, 0xd801, 0xdbff, 0xdc00, 0xdc01, 0xdfff, 0xe000, 0xffff };
   for( unsigned a : cls ) {
      unj( { a } );
      for( unsigned b2 : cls ) {
         unj( { a, b2 } );
         for( unsigned c : cls ) {
            unj( { a, b2, c } );
         }
      }
   }
   // the example's JSON string unescaping: all token sequences up to length 3 (quick: 2 plus a seeded sample of length 3)
   {
      std::vector< std::pair< int, unsigned > > alpha = { { 1, 'a' }, { 1, ' ' }, { 1, 0x7f } };
      for( const char c : { '"', '\\', '/', 'b', 'f', 'n', 'r', 't' } ) {
         alpha.emplace_back( 2, unsigned( c ) );
      }
      for( const unsigned u : { 0x0000u, 0x0041u, 0x00e9u, 0x20acu, 0xd7ffu, 0xd800u, 0xd840u, 0xdbffu, 0xdc00u, 0xdfffu, 0xe000u, 0xffffu } ) {
         alpha.emplace_back( 3, u );
      }
      std::mt19937 rng2( seed + 17 );
      jstr( {} );
      for( const auto& a : alpha ) {
         jstr( { a } );
         for( const auto& b2 : alpha ) {
            jstr( { a, b2 } );
            for( const auto& c : alpha ) {
               if( thorough || ( rng2() % 8 ) == 0 ) {
                  jstr( { a, b2, c } );
               }
            }
         }
      }
      // multi-byte literals pass through unchanged
      jstr( { { 1, 0xc3 }, { 1, 0xa9 }, { 3, 0xd834 }, { 3, 0xdd1e }, { 1, 0xf0 }, { 1, 0x9d }, { 1, 0x84 }, { 1, 0x9e }, { 2, 'n' } } );
   }
   // unescape_u / unescape_x / unhex_string
   const char* hex = "0123456789abcdefABCDEF";
   const std::string hd = thorough ? std::string( "0189afAFdD7eE" ) : std::string( "01fFdD8" );
   vt::for_all_strings( hd, thorough ? 5 : 4, [ & ]( const std::string& s ) {
      if( !s.empty() ) {
         unu( s );
         unhex< std::uint32_t >( s, 32 );
         if( s.size() <= 4 ) {
            unhex< std::uint16_t >( s, 16 );
         }
      }
   } );
   for( const char* spec : { "10ffff", "110000", "00d800", "0010FFFF", "7fffffff", "ffffffff", "0000dfff", "0001F600" } ) {
      unu( spec );
      unhex< std::uint32_t >( spec, 32 );
      unhex< std::uint64_t >( spec, 64 );
   }
   unhex< std::uint64_t >( "ffffffffffffffff", 64 );
   unhex< std::uint64_t >( "8000000000000001", 64 );
   unhex< std::uint64_t >( "0123456789abcdef", 64 );
   for( int i = 0; i < 22; ++i ) {
      for( int j = 0; j < 22; ++j ) {
         const std::string s = { hex[ i ], hex[ j ] };
         unx( s );
         unhex< std::uint8_t >( s, 8 );
         unhex< char >( s, 8 );
      }
   }
   unc();
}

// ------------------------------------------------------------------------------------------------ C16 raw_string

struct RawState
{
   long long cb = -1, ce = -1;
   int calls = 0;
   const char* base = nullptr;
};

template< typename Rule >
struct raw_action : nothing< Rule >
{};

template< typename Raw >
struct raw_content_action
{
   // the content rule is matched with the marker size as an additional first state
   template< typename AI >
   static void apply( const AI& ai, const std::size_t& /*marker_size*/, RawState& st )
   {
      st.cb = ai.begin() - st.base;
      st.ce = ai.end() - st.base;
      ++st.calls;
   }
};

using raw0 = raw_string< '[', '=', ']' >;
using raw1 = raw_string< '{', '*', '}' >;
using raw2 = raw_string< '[', '=', ']', any >;
using raw3 = raw_string< '[', '=', ']', not_one< 'x' > >;
using raw4 = raw_string< '[', '=', ']', one< 'a' >, opt< one< 'b' > > >;
using raw5 = raw_string< '[', '=', ']', any, any >;   // several content rules that can eat the closing bracket: the close is looked for before every round of seq< Contents... >, not only once
template<> struct raw_action< raw0::content > : raw_content_action< raw0 > {};
template<> struct raw_action< raw1::content > : raw_content_action< raw1 > {};
template<> struct raw_action< raw2::content > : raw_content_action< raw2 > {};
template<> struct raw_action< raw3::content > : raw_content_action< raw3 > {};
template<> struct raw_action< raw4::content > : raw_content_action< raw4 > {};
template<> struct raw_action< raw5::content > : raw_content_action< raw5 > {};

template< typename Raw, typename Eol >
static void raw_one( const std::string& w, int variant, int eolid )
{
   Blk b( w );
   memory_input< tracking_mode::eager, Eol, std::string > in( b.p, b.p + b.n, "src" );
   RawState st;
   st.base = b.p;
   int res;
   try {
      res = parse< Raw, raw_action, normal, apply_mode::action, rewind_mode::required >( in, st ) ? 1 : 0;
   }
   catch( const parse_error& ) {
      res = 2;
   }
   rec_begin( "raw" );
   put_bytes( "w", w );
   W.kv( "var", variant );
   W.kv( "eol", eolid );
   W.kv( "res", res );
   W.kv( "n", in.current() - b.p );
   W.kv( "cb", st.cb );
   W.kv( "ce", st.ce );
   W.kv( "calls", st.calls );
   W.kv( "pb", (long long)in.position().byte );
   W.kv( "pl", (long long)in.position().line );
   W.kv( "pc", (long long)in.position().column );
   rec_end();
}

template< typename Raw >
static void raw_all_eol( const std::string& w, int variant, bool all )
{
   raw_one< Raw, eol::lf_crlf >( w, variant, 3 );
   if( all ) {
      raw_one< Raw, eol::lf >( w, variant, 0 );
      raw_one< Raw, eol::cr >( w, variant, 1 );
      raw_one< Raw, eol::crlf >( w, variant, 2 );
      raw_one< Raw, eol::cr_crlf >( w, variant, 4 );
   }
}

static void section_raw( bool thorough, unsigned seed )
{
   vt::for_all_strings( std::string( "[]=\n\rx", 6 ), thorough ? 8 : 6, [ & ]( const std::string& w ) {
      const bool nl = w.find_first_of( "\n\r" ) != std::string::npos;
      raw_all_eol< raw0 >( w, 0, nl );
      raw_one< raw2, eol::lf_crlf >( w, 2, 3 );
      raw_one< raw3, eol::lf_crlf >( w, 3, 3 );
      raw_one< raw5, eol::lf_crlf >( w, 5, 3 );
   } );
   vt::for_all_strings( std::string( "{}*[=x", 6 ), thorough ? 7 : 5, [ & ]( const std::string& w ) {
      raw_one< raw1, eol::lf_crlf >( w, 1, 3 );
   } );
   vt::for_all_strings( std::string( "[]=ab", 5 ), thorough ? 8 : 6, [ & ]( const std::string& w ) {
      raw_one< raw4, eol::lf_crlf >( w, 4, 3 );
   } );
   // longer random strings
   std::mt19937 rng( seed );
   const std::string sig = "[[]]===\n\rxa";
   for( int i = 0; i < ( thorough ? 60000 : 4000 ); ++i ) {
      std::string w;
      const int len = 8 + int( rng() % 24 );
      for( int j = 0; j < len; ++j ) {
         w += sig[ rng() % sig.size() ];
      }
      if( rng() % 2 ) {
         w = "[" + std::string( rng() % 3, '=' ) + "[" + w;
      }
      raw_all_eol< raw0 >( w, 0, true );
      raw_one< raw3, eol::lf_crlf >( w, 3, 3 );
   }
}

// ------------------------------------------------------------------------------------------------ C15 integer

template< typename T >
static std::string dec( T v )
{
   if constexpr( std::is_signed_v< T > ) {
      const long long x = (long long)v;
      return std::to_string( x );
   }
   else {
      const unsigned long long x = (unsigned long long)v;
      return std::to_string( x );
   }
}

static void int_rec( const char* rule, int bits, int sgn, const std::string& maxs, const std::string& w, int res, long long n, const std::string& stored, const std::string& msg )
{
   rec_begin( "int" );
   W.str( "rule", rule );
   W.kv( "bits", bits );
   W.kv( "sgn", sgn );
   put_bytes( "max", maxs );
   put_bytes( "w", w );
   W.kv( "res", res );
   W.kv( "n", n );
   put_bytes( "stored", stored );
   W.str( "msg", msg );
   rec_end();
}

template< typename Rule >
static void int_syntax( const char* name, const std::string& w, const std::string& maxs = std::string() )
{
   Blk b( w );
   memory_input<> in( b.p, b.p + b.n, "src" );
   int res;
   std::string msg;
   try {
      res = parse< Rule, nothing, normal, apply_mode::action, rewind_mode::required >( in ) ? 1 : 0;
   }
   catch( const parse_error& e ) {
      res = 2;
      msg = std::string( e.message() );
   }
   int_rec( name, 0, 0, maxs, w, res, in.current() - b.p, "", msg );
}

template< typename Rule, typename T >
static void int_store( const char* name, const std::string& maxs, const std::string& w )
{
   Blk b( w );
   memory_input<> in( b.p, b.p + b.n, "src" );
   T st = T( 77 );
   int res;
   std::string msg;
   try {
      res = parse< Rule, nothing, normal, apply_mode::action, rewind_mode::required >( in, st ) ? 1 : 0;
   }
   catch( const parse_error& e ) {
      res = 2;
      msg = std::string( e.message() );
   }
   int_rec( name, int( sizeof( T ) * 8 ), std::is_signed_v< T > ? 1 : 0, maxs, w, res, in.current() - b.p, res == 1 ? dec( st ) : std::string(), msg );
}

// the stand-alone actions: applied to what the syntax rule matched
template< typename Rule >
struct ua : nothing< Rule >
{};
template<>
struct ua< unsigned_rule > : unsigned_action
{};
template< typename Rule >
struct sa : nothing< Rule >
{};
template<>
struct sa< signed_rule > : signed_action
{};
template< typename T, T Max >
struct ma
{
   template< typename Rule >
   struct type : nothing< Rule >
   {};
};
template< typename Rule, template< typename... > class Act, typename T >
static void int_action( const char* name, const std::string& maxs, const std::string& w )
{
   Blk b( w );
   memory_input<> in( b.p, b.p + b.n, "src" );
   T st = T( 77 );
   int res;
   std::string msg;
   try {
      res = parse< Rule, Act, normal, apply_mode::action, rewind_mode::required >( in, st ) ? 1 : 0;
   }
   catch( const parse_error& e ) {
      res = 2;
      msg = std::string( e.message() );
   }
   int_rec( name, int( sizeof( T ) * 8 ), std::is_signed_v< T > ? 1 : 0, maxs, w, res, in.current() - b.p, res == 1 ? dec( st ) : std::string(), msg );
}

template< typename T >
static std::string maxdec()
{
   return dec( ( std::numeric_limits< T >::max )() );
}

template< typename U >
static void int_unsigned_type( const std::string& w )
{
   int_store< unsigned_rule_with_action, U >( "unsigned_rule_with_action", maxdec< U >(), w );
   int_action< unsigned_rule, ua, U >( "unsigned_action", maxdec< U >(), w );
   int_syntax< maximum_rule< U > >( "maximum_rule", w, maxdec< U >() );
   int_store< maximum_rule_with_action< U >, U >( "maximum_rule_with_action", maxdec< U >(), w );
}
template< typename S >
static void int_signed_type( const std::string& w )
{
   int_store< signed_rule_with_action, S >( "signed_rule_with_action", maxdec< S >(), w );
   int_action< signed_rule, sa, S >( "signed_action", maxdec< S >(), w );
}

template< typename U, U Max >
static void int_max( const std::string& w )
{
   int_syntax< maximum_rule< U, Max > >( "maximum_rule", w, dec( Max ) );
   int_store< maximum_rule_with_action< U, Max >, U >( "maximum_rule_with_action", dec( Max ), w );
}

static void int_all( const std::string& w )
{
   int_syntax< unsigned_rule >( "unsigned_rule", w );
   int_syntax< signed_rule >( "signed_rule", w );
   int_unsigned_type< std::uint8_t >( w );
   int_unsigned_type< std::uint16_t >( w );
   int_unsigned_type< std::uint32_t >( w );
   int_unsigned_type< std::uint64_t >( w );
   int_signed_type< std::int8_t >( w );
   int_signed_type< std::int16_t >( w );
   int_signed_type< std::int32_t >( w );
   int_signed_type< std::int64_t >( w );
   int_max< std::uint8_t, 9 >( w );
   int_max< std::uint8_t, 10 >( w );
   int_max< std::uint8_t, 99 >( w );
   int_max< std::uint8_t, 100 >( w );
   int_max< std::uint16_t, 999 >( w );
   int_max< std::uint16_t, 1000 >( w );
   int_max< std::uint16_t, 1001 >( w );
   int_max< std::uint32_t, 99999 >( w );
   int_max< std::uint32_t, 100000 >( w );
   int_max< std::uint64_t, 0 >( w );
   int_max< std::uint64_t, 1 >( w );
}

static std::string add_dec( const std::string& a, long long d )
{
   // a + d for a decimal string a >= 0, result clipped at 0
   __int128 v = 0;
   for( char c : a )
      v = v * 10 + ( c - '0' );
   v += d;
   if( v < 0 )
      v = 0;
   std::string r;
   if( v == 0 )
      r = "0";
   while( v > 0 ) {
      r.insert( r.begin(), char( '0' + int( v % 10 ) ) );
      v /= 10;
   }
   return r;
}

static void section_integer( bool thorough )
{
   // exhaustive small numerals x signs x trailing byte
   const std::string trail[] = { "", "0", "7", "x", "-" };
   vt::for_all_strings( "0129", thorough ? 5 : 4, [ & ]( const std::string& d ) {
      for( const char* sign : { "", "-", "+" } ) {
         for( const std::string& t : trail ) {
            int_all( std::string( sign ) + d + t );
         }
      }
   } );
   // all numerals up to one digit beyond the width of 8-bit targets are covered above for digits {0,1,2,9};
   // boundary neighbourhoods of every type's limits and of the powers of ten
   std::vector< std::string > b = { "127", "128", "255", "256", "32767", "32768", "65535", "65536", "2147483647", "2147483648", "4294967295", "4294967296",
                                    "9223372036854775807", "9223372036854775808", "18446744073709551615", "18446744073709551616",
                                    "10", "100", "1000", "10000", "100000", "1000000" };
   const int span = thorough ? 12 : 3;
   for( const std::string& x : b ) {
      for( int d = -span; d <= span; ++d ) {
         const std::string v = add_dec( x, d );
         for( const char* sign : { "", "-", "+" } ) {
            int_all( std::string( sign ) + v );
            int_all( std::string( sign ) + v + "0" );
            int_all( std::string( sign ) + "0" + v );
         }
      }
   }
   for( const char* x : { "99999999999999999999", "184467440737095516150", "340282366920938463463374607431768211456", "-99999999999999999999" } ) {
      int_all( x );
   }
   if( thorough ) {
      for( int v = 0; v < 70000; ++v ) {
         const std::string s = std::to_string( v );
         int_all( s );
         int_all( "-" + s );
      }
   }
   else {
      for( int v = 0; v < 700; ++v ) {
         const std::string s = std::to_string( v );
         int_all( s );
         int_all( "-" + s );
      }
   }
}

// ------------------------------------------------------------------------------------------------ C10 codecs

template< typename Rule >
static std::pair< bool, std::size_t > run_rule( const std::string& w )
{
   Blk b( w );
   memory_input<> in( b.p, b.p + b.n, "src" );
   const bool r = parse< Rule, nothing, normal, apply_mode::nothing, rewind_mode::required >( in );
   return { r, std::size_t( in.current() - b.p ) };
}

template< typename Rule >
static void cls_rule( const char* name )
{
   std::string acc;
   int bad = 0;
   for( int c = 0; c < 256; ++c ) {
      const std::string w( 1, char( c ) );
      const auto r = run_rule< Rule >( w );
      if( r.first ) {
         acc += char( c );
         if( r.second != 1 )
            ++bad;
      }
      else if( r.second != 0 ) {
         ++bad;
      }
      // followed by another byte: still exactly one byte
      const auto r2 = run_rule< Rule >( w + "a" );
      if( r2.first != r.first || r2.second != r.second )
         ++bad;
   }
   const auto e = run_rule< Rule >( "" );
   rec_begin( "cls" );
   W.str( "rule", name );
   put_bytes( "acc", acc );
   W.kv( "bad", bad );
   W.kv( "empty", e.first ? 1 : 0 );
   rec_end();
}

template< typename Peek >
static void peek_rec( const char* f, int be, const std::string& w )
{
   Blk b( w );
   memory_input<> in( b.p, b.p + b.n, "src" );
   const auto t = Peek::peek( in );
   memory_input<> in2( b.p, b.p + b.n, "src" );
   const bool r = parse< internal::any< Peek >, nothing, normal, apply_mode::nothing, rewind_mode::required >( in2 );
   rec_begin( f );
   W.kv( "be", be );
   put_bytes( "w", w );
   W.kv( "n", (long long)t.size );
   W.kv( "hi", (long long)( std::uint32_t( t.data ) >> 16 ) );
   W.kv( "lo", (long long)( std::uint32_t( t.data ) & 0xffff ) );
   W.kv( "rn", r ? (long long)( in2.current() - b.p ) : 0LL );
   rec_end();
}

static void u8agg( bool thorough )
{
   // all three-byte sequences per lead byte E0..EF, all four-byte sequences per lead byte F0..F7 (thorough),
   // summarised: number accepted, smallest and largest decoded value, all decoded with the right length
   for( int lead = 0xe0; lead <= 0xef; ++lead ) {
      long long cnt = 0, mn = -1, mx = -1, badlen = 0;
      char buf[ 3 ] = { char( lead ), 0, 0 };
      for( int b1 = 0; b1 < 256; ++b1 ) {
         for( int b2 = 0; b2 < 256; ++b2 ) {
            buf[ 1 ] = char( b1 );
            buf[ 2 ] = char( b2 );
            memory_input<> in( buf, buf + 3, "src" );
            const auto t = internal::peek_utf8::peek( in );
            if( t.size ) {
               ++cnt;
               if( t.size != 3 )
                  ++badlen;
               const long long v = (long long)t.data;
               if( mn < 0 || v < mn )
                  mn = v;
               if( v > mx )
                  mx = v;
            }
         }
      }
      rec_begin( "u8agg" );
      W.kv( "lead", lead );
      W.kv( "cnt", cnt );
      W.kv( "mn", mn );
      W.kv( "mx", mx );
      W.kv( "badlen", badlen );
      rec_end();
   }
   for( int lead = 0xf0; lead <= 0xff; ++lead ) {
      long long cnt = 0, mn = -1, mx = -1, badlen = 0;
      char buf[ 4 ] = { char( lead ), 0, 0, 0 };
      const int step = thorough ? 1 : 3;  // quick: every third value of the last byte
      for( int b1 = 0; b1 < 256; ++b1 ) {
         for( int b2 = 0; b2 < 256; ++b2 ) {
            for( int b3 = 0; b3 < 256; b3 += step ) {
               buf[ 1 ] = char( b1 );
               buf[ 2 ] = char( b2 );
               buf[ 3 ] = char( b3 );
               memory_input<> in( buf, buf + 4, "src" );
               const auto t = internal::peek_utf8::peek( in );
               if( t.size ) {
                  ++cnt;
                  if( t.size != 4 )
                     ++badlen;
                  const long long v = (long long)t.data;
                  if( mn < 0 || v < mn )
                     mn = v;
                  if( v > mx )
                     mx = v;
               }
            }
         }
      }
      rec_begin( "u8agg" );
      W.kv( "lead", lead );
      W.kv( "cnt", thorough ? cnt : -1 );
      W.kv( "mn", mn );
      W.kv( "mx", mx );
      W.kv( "badlen", badlen );
      rec_end();
   }
}

template< typename Peek >
static void u32agg( int be )
{
   // every 32-bit unit: maximal ranges of accepted values
   std::vector< std::pair< std::uint32_t, std::uint32_t > > ranges;
   bool open = false;
   std::uint32_t lo = 0;
   char buf[ 4 ];
   std::uint64_t v = 0;
   for( ; v <= 0xffffffffull; ++v ) {
      const std::uint32_t x = std::uint32_t( v );
      if( be ) {
         buf[ 0 ] = char( x >> 24 );
         buf[ 1 ] = char( x >> 16 );
         buf[ 2 ] = char( x >> 8 );
         buf[ 3 ] = char( x );
      }
      else {
         buf[ 3 ] = char( x >> 24 );
         buf[ 2 ] = char( x >> 16 );
         buf[ 1 ] = char( x >> 8 );
         buf[ 0 ] = char( x );
      }
      memory_input<> in( buf, buf + 4, "src" );
      const auto t = Peek::peek( in );
      const bool ok = ( t.size == 4 ) && ( std::uint32_t( t.data ) == x );
      if( ok && !open ) {
         open = true;
         lo = x;
      }
      else if( !ok && open ) {
         open = false;
         ranges.emplace_back( lo, x - 1 );
      }
   }
   if( open )
      ranges.emplace_back( lo, 0xffffffffu );
   rec_begin( "u32agg" );
   W.kv( "be", be );
   W.s( ",\"ranges\":[" );
   for( std::size_t i = 0; i < ranges.size() && i < 64; ++i ) {
      if( i )
         W.s( "," );
      W.s( "[" );
      W.i( ranges[ i ].first >> 16 );
      W.s( "," );
      W.i( ranges[ i ].first & 0xffff );
      W.s( "," );
      W.i( ranges[ i ].second >> 16 );
      W.s( "," );
      W.i( ranges[ i ].second & 0xffff );
      W.s( "]" );
   }
   W.s( "]" );
   W.kv( "nranges", (long long)ranges.size() );
   rec_end();
}

static std::string u16bytes( unsigned u, bool be )
{
   std::string s;
   if( be ) {
      s += char( u >> 8 );
      s += char( u & 0xff );
   }
   else {
      s += char( u & 0xff );
      s += char( u >> 8 );
   }
   return s;
}
static std::string u32bytes( std::uint32_t u, bool be )
{
   std::string s;
   for( int i = 0; i < 4; ++i ) {
      const int sh = be ? ( 24 - 8 * i ) : ( 8 * i );
      s += char( ( u >> sh ) & 0xff );
   }
   return s;
}

// binary rules: the rule's parameters travel in the record, limbs are 16 bit, most significant first
template< typename Rule >
static void uint_rec( const char* kind, int bits, int be, std::uint64_t mask, std::uint64_t a, std::uint64_t b2, const std::string& w )
{
   const auto r = run_rule< Rule >( w );
   rec_begin( "uint" );
   W.str( "kind", kind );
   W.kv( "bits", bits );
   W.kv( "be", be );
   auto limbs = [ & ]( const char* k, std::uint64_t v ) {
      W.s( ",\"" );
      W.s( k );
      W.s( "\":[" );
      W.i( ( v >> 48 ) & 0xffff );
      W.s( "," );
      W.i( ( v >> 32 ) & 0xffff );
      W.s( "," );
      W.i( ( v >> 16 ) & 0xffff );
      W.s( "," );
      W.i( v & 0xffff );
      W.s( "]" );
   };
   limbs( "mask", mask );
   limbs( "a", a );
   limbs( "b", b2 );
   put_bytes( "w", w );
   W.kv( "res", r.first ? 1 : 0 );
   W.kv( "n", (long long)r.second );
   rec_end();
}

static std::vector< std::string > neighbours( const std::string& exact )
{
   // the exact encoding, every single-byte +-1 variation, byte-swapped, all truncations, one extra byte
   std::vector< std::string > out = { exact, exact + "\x7f", std::string( exact.rbegin(), exact.rend() ) };
   for( std::size_t i = 0; i < exact.size(); ++i ) {
      for( int d : { -1, 1, 0x80 } ) {
         std::string s = exact;
         s[ i ] = char( ( (unsigned char)s[ i ] + d ) & 0xff );
         out.push_back( s );
      }
      out.push_back( exact.substr( 0, i ) );
   }
   return out;
}

static std::string be_bytes( std::uint64_t v, int n, bool be )
{
   std::string s;
   for( int i = 0; i < n; ++i ) {
      const int sh = be ? 8 * ( n - 1 - i ) : 8 * i;
      s += char( ( v >> sh ) & 0xff );
   }
   return s;
}

static void section_codecs( bool thorough, unsigned seed )
{
   std::mt19937 rng( seed );
   // ASCII classes over every byte
   cls_rule< alnum >( "alnum" );
   cls_rule< alpha >( "alpha" );
   cls_rule< blank >( "blank" );
   cls_rule< digit >( "digit" );
   cls_rule< identifier_first >( "identifier_first" );
   cls_rule< identifier_other >( "identifier_other" );
   cls_rule< lower >( "lower" );
   cls_rule< nul >( "nul" );
   cls_rule< odigit >( "odigit" );
   cls_rule< print >( "print" );
   cls_rule< seven >( "seven" );
   cls_rule< space >( "space" );
   cls_rule< upper >( "upper" );
   cls_rule< xdigit >( "xdigit" );
   cls_rule< any >( "any" );
   cls_rule< abnf::ALPHA >( "abnf_ALPHA" );
   cls_rule< abnf::DIGIT >( "abnf_DIGIT" );
   cls_rule< abnf::HEXDIG >( "abnf_HEXDIG" );
   cls_rule< abnf::VCHAR >( "abnf_VCHAR" );
   cls_rule< abnf::CTL >( "abnf_CTL" );
   cls_rule< abnf::WSP >( "abnf_WSP" );
   cls_rule< abnf::BIT >( "abnf_BIT" );
   cls_rule< abnf::CHAR >( "abnf_CHAR" );
   cls_rule< abnf::OCTET >( "abnf_OCTET" );
   cls_rule< abnf::SP >( "abnf_SP" );
   cls_rule< abnf::HTAB >( "abnf_HTAB" );
   cls_rule< abnf::DQUOTE >( "abnf_DQUOTE" );
   cls_rule< abnf::CR >( "abnf_CR" );
   cls_rule< abnf::LF >( "abnf_LF" );

   // UTF-8: every 1-byte sequence, 2-byte sequences, the product of boundary bytes up to length 4
   const unsigned char b26[] = { 0x00, 0x7f, 0x80, 0x8f, 0x90, 0x9f, 0xa0, 0xbf, 0xc0, 0xc1, 0xc2, 0xdf, 0xe0, 0xe1, 0xec, 0xed, 0xee, 0xef, 0xf0, 0xf1, 0xf3, 0xf4, 0xf5, 0xf7, 0xf8, 0xff };
   const unsigned char b12[] = { 0x7f, 0x80, 0x8f, 0x90, 0x9f, 0xa0, 0xbf, 0xc2, 0xe0, 0xed, 0xf0, 0xf4 };
   std::string bb = thorough ? std::string( (const char*)b26, 26 ) : std::string( (const char*)b12, 12 );
   for( int a = 0; a < 256; ++a ) {
      peek_rec< internal::peek_utf8 >( "u8", 0, std::string( 1, char( a ) ) );
   }
   for( int a = 0; a < 256; ++a ) {
      const bool lead_bnd = std::string( (const char*)b26, 26 ).find( char( a ) ) != std::string::npos;
      if( thorough || lead_bnd ) {
         for( int c = 0; c < 256; ++c ) {
            peek_rec< internal::peek_utf8 >( "u8", 0, std::string( { char( a ), char( c ) } ) );
         }
      }
   }
   vt::for_all_strings( bb, 4, [ & ]( const std::string& w ) {
      if( w.size() >= 3 ) {
         peek_rec< internal::peek_utf8 >( "u8", 0, w );
      }
   } );
   for( int i = 0; i < ( thorough ? 200000 : 10000 ); ++i ) {
      std::string w;
      const int len = 3 + int( rng() % 2 );
      w += char( 0xe0 + rng() % 0x18 );
      for( int j = 1; j < len; ++j )
         w += char( rng() % 256 );
      peek_rec< internal::peek_utf8 >( "u8", 0, w );
   }
   u8agg( thorough );

   // UTF-16: single units and unit pairs around the surrogate boundaries, both byte orders, truncations
   const unsigned u16b[] = { 0x0000, 0x0041, 0x00ff, 0x0100, 0xd7ff, 0xd800, 0xd801, 0xdbff, 0xdc00, 0xdc01, 0xdfff, 0xe000, 0xfeff, 0xfffe, 0xffff, 0x1234 };
   for( int be = 0; be < 2; ++be ) {
      auto one_unit = [ & ]( unsigned u ) {
         const std::string a = u16bytes( u, be );
         if( be )
            peek_rec< internal::peek_utf16_be >( "u16", 1, a );
         else
            peek_rec< internal::peek_utf16_le >( "u16", 0, a );
      };
      auto two_units = [ & ]( unsigned u, unsigned v ) {
         const std::string a = u16bytes( u, be ) + u16bytes( v, be );
         for( std::size_t cut : { std::size_t( 4 ), std::size_t( 3 ), std::size_t( 1 ) } ) {
            if( be )
               peek_rec< internal::peek_utf16_be >( "u16", 1, a.substr( 0, cut ) );
            else
               peek_rec< internal::peek_utf16_le >( "u16", 0, a.substr( 0, cut ) );
         }
      };
      if( thorough ) {
         for( unsigned u = 0; u < 0x10000; ++u ) {
            one_unit( u );
            for( unsigned v : u16b ) {
               if( ( u >= 0xd700 && u <= 0xe0ff ) || ( u % 251 ) == 0 )
                  two_units( u, v );
            }
         }
      }
      else {
         for( unsigned u = 0; u < 0x10000; u += 7 ) {
            one_unit( u );
         }
      }
      for( unsigned u : u16b ) {
         one_unit( u );
         for( unsigned v : u16b ) {
            two_units( u, v );
         }
      }
      peek_rec< internal::peek_utf16_be >( "u16", 1, "" );
   }
   // UTF-32: boundary units +-2, random units, truncations; thorough: the accept set over all 2^32 units
   const std::uint32_t u32b[] = { 0x0, 0x7f, 0x80, 0xffff, 0x10000, 0xd7ff, 0xd800, 0xdfff, 0xe000, 0x10ffff, 0x110000, 0x7fffffff, 0x80000000u, 0xffffffffu, 0xff0000u, 0x1000000u };
   for( int be = 0; be < 2; ++be ) {
      auto unit = [ & ]( std::uint32_t u ) {
         const std::string a = u32bytes( u, be );
         for( std::size_t cut : { std::size_t( 4 ), std::size_t( 3 ), std::size_t( 0 ) } ) {
            if( be )
               peek_rec< internal::peek_utf32_be >( "u32", 1, a.substr( 0, cut ) );
            else
               peek_rec< internal::peek_utf32_le >( "u32", 0, a.substr( 0, cut ) );
         }
      };
      for( std::uint32_t u : u32b ) {
         for( int d = -2; d <= 2; ++d ) {
            unit( std::uint32_t( u + std::uint32_t( d ) ) );
         }
      }
      for( int i = 0; i < ( thorough ? 100000 : 5000 ); ++i ) {
         unit( std::uint32_t( rng() ) );
         unit( std::uint32_t( rng() % 0x120000 ) );
      }
   }
   if( thorough ) {
      u32agg< internal::peek_utf32_be >( 1 );
      u32agg< internal::peek_utf32_le >( 0 );
   }

   // binary rules
   for( const std::string& w : neighbours( be_bytes( 0x1234, 2, true ) ) ) {
      uint_rec< uint16_be::one< 0x1234 > >( "one", 16, 1, 0xffff, 0x1234, 0x1234, w );
      uint_rec< uint16_le::one< 0x3412 > >( "one", 16, 0, 0xffff, 0x3412, 0x3412, w );
      uint_rec< uint16_be::not_one< 0x1234 > >( "not_one", 16, 1, 0xffff, 0x1234, 0x1234, w );
      uint_rec< uint16_be::range< 0x1200, 0x12ff > >( "range", 16, 1, 0xffff, 0x1200, 0x12ff, w );
      uint_rec< uint16_le::range< 0x1200, 0x12ff > >( "range", 16, 0, 0xffff, 0x1200, 0x12ff, w );
      uint_rec< uint16_be::mask_one< 0x0ff0, 0x0230 > >( "one", 16, 1, 0x0ff0, 0x0230, 0x0230, w );
      uint_rec< uint16_le::mask_range< 0xff00, 0x1000, 0x2000 > >( "range", 16, 0, 0xff00, 0x1000, 0x2000, w );
      uint_rec< uint16_be::any >( "any", 16, 1, 0xffff, 0, 0, w );
      uint_rec< uint8::one< 0x12 > >( "one", 8, 1, 0xff, 0x12, 0x12, w );
      uint_rec< uint8::mask_one< 0xf0, 0x10 > >( "one", 8, 1, 0xf0, 0x10, 0x10, w );
      uint_rec< uint8::range< 0x10, 0x13 > >( "range", 8, 1, 0xff, 0x10, 0x13, w );
   }
   if( thorough ) {
      for( unsigned u = 0; u < 0x10000; ++u ) {
         const std::string w = u16bytes( u, true );
         uint_rec< uint16_be::range< 0x1200, 0x12ff > >( "range", 16, 1, 0xffff, 0x1200, 0x12ff, w );
         uint_rec< uint16_le::mask_one< 0x0ff0, 0x0230 > >( "one", 16, 0, 0x0ff0, 0x0230, 0x0230, w );
      }
   }
   for( const std::string& w : neighbours( be_bytes( 0x12345678, 4, true ) ) ) {
      uint_rec< uint32_be::one< 0x12345678 > >( "one", 32, 1, 0xffffffffu, 0x12345678, 0x12345678, w );
      uint_rec< uint32_le::one< 0x78563412 > >( "one", 32, 0, 0xffffffffu, 0x78563412, 0x78563412, w );
      uint_rec< uint32_be::range< 0x12340000, 0x1234ffff > >( "range", 32, 1, 0xffffffffu, 0x12340000, 0x1234ffff, w );
      uint_rec< uint32_le::mask_one< 0x00ffff00, 0x00563400 > >( "one", 32, 0, 0x00ffff00, 0x00563400, 0x00563400, w );
      uint_rec< uint32_be::mask_range< 0xffff0000u, 0x12000000, 0x12ff0000 > >( "range", 32, 1, 0xffff0000u, 0x12000000, 0x12ff0000, w );
      uint_rec< uint32_be::any >( "any", 32, 1, 0xffffffffu, 0, 0, w );
   }
   for( const std::string& w : neighbours( be_bytes( 0x0102030405060708ull, 8, true ) ) ) {
      uint_rec< uint64_be::one< 0x0102030405060708ull > >( "one", 64, 1, ~0ull, 0x0102030405060708ull, 0x0102030405060708ull, w );
      uint_rec< uint64_le::one< 0x0807060504030201ull > >( "one", 64, 0, ~0ull, 0x0807060504030201ull, 0x0807060504030201ull, w );
      uint_rec< uint64_be::range< 0x0102030405060000ull, 0x010203040506ffffull > >( "range", 64, 1, ~0ull, 0x0102030405060000ull, 0x010203040506ffffull, w );
      uint_rec< uint64_le::mask_one< 0xff000000000000ffull, 0x0800000000000001ull > >( "one", 64, 0, 0xff000000000000ffull, 0x0800000000000001ull, 0x0800000000000001ull, w );
      uint_rec< uint64_be::any >( "any", 64, 1, ~0ull, 0, 0, w );
   }
   uint_rec< uint64_be::one< 0xffffffffffffffffull > >( "one", 64, 1, ~0ull, ~0ull, ~0ull, std::string( 8, '\xff' ) );
   uint_rec< uint64_be::one< 0x8000000000000000ull > >( "one", 64, 1, ~0ull, 0x8000000000000000ull, 0x8000000000000000ull, be_bytes( 0x8000000000000000ull, 8, true ) );
   uint_rec< uint64_be::range< 0x7fffffffffffffffull, 0x8000000000000001ull > >( "range", 64, 1, ~0ull, 0x7fffffffffffffffull, 0x8000000000000001ull, be_bytes( 0x8000000000000000ull, 8, true ) );

   // case-insensitive strings: every byte at every position of a pattern with letters, digits and the neighbours of the letters
   using ipat = istring< 'a', 'Z', '1', '[', '@', '`', '{', 'm' >;
   const std::string pat = "aZ1[@`{m";
   for( std::size_t i = 0; i < pat.size(); ++i ) {
      for( int c = 0; c < 256; ++c ) {
         std::string w = pat;
         w[ i ] = char( c );
         const auto r = run_rule< ipat >( w );
         rec_begin( "istr" );
         put_bytes( "pat", pat );
         put_bytes( "w", w );
         W.kv( "res", r.first ? 1 : 0 );
         W.kv( "n", (long long)r.second );
         rec_end();
      }
   }
   for( std::size_t cut = 0; cut < pat.size(); ++cut ) {
      const auto r = run_rule< ipat >( pat.substr( 0, cut ) );
      rec_begin( "istr" );
      put_bytes( "pat", pat );
      put_bytes( "w", pat.substr( 0, cut ) );
      W.kv( "res", r.first ? 1 : 0 );
      W.kv( "n", (long long)r.second );
      rec_end();
   }
}

// ------------------------------------------------------------------------------------------------ C14 json, C20 uri

template< typename Rule >
static int accept_rule( const std::string& w )
{
   Blk b( w );
   memory_input<> in( b.p, b.p + b.n, "src" );
   try {
      return parse< seq< Rule, eof > >( in ) ? 1 : 0;
   }
   catch( const parse_error& ) {
      return 2;
   }
   catch( ... ) {
      return 3;
   }
}

static void lang_rec( const char* f, const char* rule, const std::string& w, int res )
{
   rec_begin( f );
   W.str( "rule", rule );
   put_bytes( "w", w );
   W.kv( "res", res );
   rec_end();
}

static void json_one( const std::string& w )
{
   lang_rec( "json", "text", w, accept_rule< json::text >( w ) );
}

struct Gen
{
   std::mt19937 rng;
   explicit Gen( unsigned seed )
      : rng( seed )
   {}
   unsigned r( unsigned n )
   {
      return unsigned( rng() % n );
   }
   std::string pick( std::initializer_list< const char* > l )
   {
      auto it = l.begin();
      std::advance( it, r( unsigned( l.size() ) ) );
      return *it;
   }
   std::string ws()
   {
      return pick( { "", "", "", " ", "\n", "\t ", "\r\n" } );
   }
   std::string jstring()
   {
      std::string s = "\"";
      const unsigned n = r( 4 );
      for( unsigned i = 0; i < n; ++i ) {
         s += pick( { "a", "z", " ", "\\n", "\\\"", "\\\\", "\\/", "\\u00e9", "\\uD834\\uDD1E", "\\ud800", "\xc3\xa9", "\xe2\x82\xac", "\xf0\x9d\x84\x9e", "\x7f", "0", "[", "}" } );
      }
      return s + "\"";
   }
   std::string jnumber()
   {
      std::string s = pick( { "", "-" } );
      s += pick( { "0", "1", "9", "10", "123", "9007199254740993" } );
      s += pick( { "", "", ".0", ".5", ".125" } );
      s += pick( { "", "", "e1", "E+2", "e-10", "E0" } );
      return s;
   }
   std::string jvalue( int depth )
   {
      const unsigned k = r( depth > 0 ? 7u : 5u );
      switch( k ) {
         case 0:
            return "true";
         case 1:
            return pick( { "false", "null" } );
         case 2:
         case 3:
            return jnumber();
         case 4:
            return jstring();
         case 5: {
            std::string s = "[" + ws();
            const unsigned n = r( 3 );
            for( unsigned i = 0; i < n; ++i ) {
               if( i )
                  s += ws() + "," + ws();
               s += jvalue( depth - 1 );
            }
            return s + ws() + "]";
         }
         default: {
            std::string s = "{" + ws();
            const unsigned n = r( 3 );
            for( unsigned i = 0; i < n; ++i ) {
               if( i )
                  s += ws() + "," + ws();
               s += jstring() + ws() + ":" + ws() + jvalue( depth - 1 );
            }
            return s + ws() + "}";
         }
      }
   }
   // single-edit mutations: delete, duplicate, replace by an interesting byte, insert, swap neighbours
   std::string mutate( const std::string& w, const std::string& interesting )
   {
      if( w.empty() )
         return std::string( 1, interesting[ r( unsigned( interesting.size() ) ) ] );
      std::string s = w;
      const std::size_t i = r( unsigned( w.size() ) );
      switch( r( 5 ) ) {
         case 0:
            s.erase( i, 1 );
            break;
         case 1:
            s.insert( i, 1, s[ i ] );
            break;
         case 2:
            s[ i ] = interesting[ r( unsigned( interesting.size() ) ) ];
            break;
         case 3:
            s.insert( i, 1, interesting[ r( unsigned( interesting.size() ) ) ] );
            break;
         default:
            if( i + 1 < s.size() )
               std::swap( s[ i ], s[ i + 1 ] );
            break;
      }
      return s;
   }
};

static void section_json( bool thorough, unsigned seed )
{
   const std::string alpha( "{}[]:,\"\\/01-+.etruaf \x1f\xc3\xa9\xed\xa0\xf4\x90", 30 );
   // exhaustive short strings over the representative bytes (every byte value of the list)
   vt::for_all_strings( alpha.substr( 0, thorough ? 30 : 24 ), thorough ? 4 : 3, [ & ]( const std::string& w ) {
      json_one( w );
   } );
   for( int c = 0; c < 256; ++c ) {
      json_one( std::string( 1, char( c ) ) );
      json_one( std::string( "\"" ) + char( c ) + "\"" );
      json_one( std::string( "\"\\" ) + char( c ) + "\"" );
      json_one( std::string( "[1" ) + char( c ) + "2]" );
      json_one( std::string( 1, char( c ) ) + "1" );
   }
   // UTF-8 inside strings: the product of boundary bytes up to length 3 (4 behind a four-byte lead), as a value and as a key
   {
      const unsigned char b12[] = { 0x7f, 0x80, 0x8f, 0x90, 0x9f, 0xa0, 0xbf, 0xc2, 0xe0, 0xed, 0xf0, 0xf4 };
      const unsigned char b18[] = { 0x7f, 0x80, 0x8f, 0x90, 0x9f, 0xa0, 0xaf, 0xb0, 0xbf, 0xc0, 0xc1, 0xc2, 0xdf, 0xe0, 0xed, 0xee, 0xf0, 0xf4 };
      const std::string bb = thorough ? std::string( (const char*)b18, 18 ) : std::string( (const char*)b12, 12 );
      vt::for_all_strings( bb, 3, [ & ]( const std::string& u ) {
         if( u.empty() )
            return;
         json_one( "\"" + u + "\"" );
         json_one( "[\"a" + u + "\"]" );
         if( u.size() == 3 )
            json_one( "{\"" + u + "\":0}" );
         if( u.size() == 3 ) {
            for( const char lead : { char( 0xf0 ), char( 0xf4 ), char( 0xf1 ) } ) {
               json_one( "\"" + std::string( 1, lead ) + u + "\"" );
            }
         }
      } );
   }
   Gen g( seed );
   const std::string interesting( "{}[]:,\"\\/0123456789-+.eEtrufalsn \t\n\r\x00\x1f\x7f\x80\xbf\xc0\xc3\xa9\xe2\xed\xa0\xf0\xf4\x90\xff", 56 );
   const int ndocs = thorough ? 20000 : 1500;
   for( int i = 0; i < ndocs; ++i ) {
      std::string doc = g.ws() + g.jvalue( 3 ) + g.ws();
      if( doc.size() > 48 )
         continue;
      json_one( doc );
      for( int m = 0; m < 6; ++m ) {
         json_one( g.mutate( doc, interesting ) );
      }
   }
   // the repository's own sample documents
   const char* dir = "/repo/src/test/pegtl/data";
   if( DIR* d = opendir( dir ) ) {
      while( dirent* e = readdir( d ) ) {
         const std::string name = e->d_name;
         if( name.size() > 5 && name.substr( name.size() - 5 ) == ".json" ) {
            std::ifstream f( std::string( dir ) + "/" + name, std::ios::binary );
            std::stringstream ss;
            ss << f.rdbuf();
            const std::string w = ss.str();
            if( w.size() <= 400 ) {
               json_one( w );
            }
         }
      }
      closedir( d );
   }
}

static void uri_all( const std::string& w )
{
   lang_rec( "uri", "URI", w, accept_rule< uri::URI >( w ) );
   lang_rec( "uri", "URI_reference", w, accept_rule< uri::URI_reference >( w ) );
   lang_rec( "uri", "absolute_URI", w, accept_rule< uri::absolute_URI >( w ) );
}
static void ip4( const std::string& w )
{
   lang_rec( "uri", "IPv4address", w, accept_rule< uri::IPv4address >( w ) );
}
static void ip6( const std::string& w )
{
   lang_rec( "uri", "IPv6address", w, accept_rule< uri::IPv6address >( w ) );
}

static void section_uri( bool thorough, unsigned seed )
{
   Gen g( seed );
   vt::for_all_strings( "a1:/?#[]@.%-", thorough ? 5 : 4, [ & ]( const std::string& w ) {
      uri_all( w );
   } );
   // IPv4: every combination of interesting octets, plus structural variations
   const std::vector< std::string > oct = { "0", "1", "9", "10", "99", "100", "199", "200", "249", "250", "255", "256", "260", "299", "300", "00", "01", "001", "", "a", "1a" };
   const std::vector< std::string > few = { "0", "9", "25", "255", "256", "01", "" };
   for( const auto& a : oct ) {
      for( const auto& b : few ) {
         for( const auto& c : few ) {
            for( const auto& d : oct ) {
               const std::string w = a + "." + b + "." + c + "." + d;
               ip4( w );
               if( a.size() < 3 && d.size() < 3 ) {
                  uri_all( "//" + w );
                  uri_all( "s://" + w + "x" );
               }
            }
         }
      }
   }
   vt::for_all_strings( "0125.", thorough ? 8 : 6, [ & ]( const std::string& w ) {
      ip4( w );
   } );
   for( const char* w : { "1.2.3", "1.2.3.4.5", "1.2.3.4.", ".1.2.3.4", "1..2.3", "1.2.3.4x", "255.255.255.255", "256.1.1.1", "1.1.1.15", "1.1.1.1" } ) {
      ip4( w );
      uri_all( std::string( "//" ) + w );
      uri_all( std::string( "http://" ) + w + "/p?q#f" );
      uri_all( std::string( "//" ) + w + ":80" );
   }
   // what may follow a host that starts like an IPv4 address: every class of the authority / path alphabet
   for( const char* f : { "%41", "%7e", "%7E.x", "%", "%4", "%4g", "x", "-", ".", ".5", "~", "_", "!", "$", "&", "'", "(", ")", "*", "+", ",", ";", "=", ":", ":8", "/", "?", "#", "@", "@h", "[", "]", " ", "\x7f", "%41%42", "a%41" } ) {
      for( const char* h : { "1.2.3.4", "255.255.255.255", "0.0.0.0", "1.2.3.256" } ) {
         uri_all( std::string( "//" ) + h + f );
         uri_all( std::string( "http://" ) + h + f + "/p" );
         uri_all( std::string( "x://u@" ) + h + f );
      }
   }
   // IPv6: every shape -- l groups, optional "::", r groups, optional embedded IPv4 -- with group lengths 1 / 4 / 5
   const std::vector< std::string > grp = { "1", "ffff", "0a0B", "12345", "g", "" };
   for( int l = 0; l <= 8; ++l ) {
      for( int cc = 0; cc <= 1; ++cc ) {
         for( int r = 0; r <= 8 - ( cc ? 0 : l ) && r <= 8; ++r ) {
            for( int v4 = 0; v4 <= 1; ++v4 ) {
               for( int variant = 0; variant < ( thorough ? 6 : 3 ); ++variant ) {
                  std::string w;
                  for( int i = 0; i < l; ++i ) {
                     if( i )
                        w += ":";
                     w += ( variant == 1 && i == l - 1 ) ? grp[ 3 ] : ( variant == 2 && i == 0 ) ? grp[ 1 ] : ( variant == 3 && i == 0 ) ? grp[ 4 ] : grp[ ( i + variant ) % 3 ];
                  }
                  if( cc )
                     w += "::";
                  else if( l && ( r || v4 ) )
                     w += ":";
                  for( int i = 0; i < r; ++i ) {
                     if( i )
                        w += ":";
                     w += grp[ ( i + 1 + variant ) % 3 ];
                  }
                  if( v4 ) {
                     if( r )
                        w += ":";
                     w += ( variant == 4 ) ? "1.2.3.256" : ( variant == 5 ) ? "1.2.3" : "1.2.3.4";
                  }
                  ip6( w );
                  if( variant == 0 ) {
                     uri_all( "//[" + w + "]" );
                     uri_all( "x://[" + w + "]:8/" );
                  }
               }
            }
         }
      }
   }
   vt::for_all_strings( "1f:.", thorough ? 8 : 6, [ & ]( const std::string& w ) {
      ip6( w );
   } );
   // IP-literal bodies around IPvFuture: "v" is an ABNF literal and therefore case-insensitive, the version is 1*HEXDIG
   // (either case), the tail 1*( unreserved / sub-delims / ":" ); every short body over a boundary alphabet, plus the tail
   // alphabet class by class
   vt::for_all_strings( "vV1g.:", thorough ? 6 : 5, [ & ]( const std::string& w ) {
      uri_all( "//[" + w + "]" );
   } );
   for( const char* intro : { "v", "V" } ) {
      for( const char* ver : { "1", "f", "F", "aB9", "g", "" } ) {
         for( const char* tl : { "a", "Z", "0", "-", ".", "_", "~", "!", "$", "&", "'", "(", ")", "*", "+", ",", ";", "=", ":", "a:b", "%41", "/", "?", "#", "[", "]", "@", " ", "" } ) {
            const std::string w = std::string( intro ) + ver + "." + tl;
            uri_all( "//[" + w + "]" );
            uri_all( "x://u@[" + w + "]:8/p?q#f" );
         }
      }
   }
   // URIs sampled from the RFC grammar, and single-edit mutations
   const std::string interesting( "a1Z:/?#[]@.%-_~!$&'()*+,;= \x7f\xc3\"<>\\^`{|}", 43 );
   auto pchars = [ & ]() {
      std::string s;
      const unsigned n = g.r( 4 );
      for( unsigned i = 0; i < n; ++i )
         s += g.pick( { "a", "Z", "1", "-", ".", "_", "~", "%41", "%fF", "!", "$", "&", "'", "(", ")", "*", "+", ",", ";", "=", ":", "@" } );
      return s;
   };
   auto host = [ & ]() -> std::string {
      switch( g.r( 6 ) ) {
         case 0:
            return "1.2.3.4";
         case 1:
            return "[::1]";
         case 2:
            return "[1:2:3:4:5:6:7:8]";
         case 3:
            return "[v1.a:b]";
         case 4:
            return "";
         default:
            return g.pick( { "example.com", "a", "a-b.c", "%41", "1.2.3.4x", "1.2.3.4.5", "999.1.1.1", "a_b~", "!$&'()*+,;=" } );
      }
   };
   auto authority = [ & ]() {
      std::string s;
      if( g.r( 3 ) == 0 )
         s += g.pick( { "u", "u:p", "", "%41:", "a.b" } ) + "@";
      s += host();
      if( g.r( 3 ) == 0 )
         s += ":" + g.pick( { "", "0", "80", "65536", "0080" } );
      return s;
   };
   auto path_abempty = [ & ]() {
      std::string s;
      const unsigned n = g.r( 3 );
      for( unsigned i = 0; i < n; ++i )
         s += "/" + pchars();
      return s;
   };
   const int nuri = thorough ? 30000 : 2500;
   for( int i = 0; i < nuri; ++i ) {
      std::string w;
      const bool rel = g.r( 3 ) == 0;
      if( !rel )
         w += g.pick( { "http", "a", "a+b-c.d", "Z9", "urn" } ) + ":";
      switch( g.r( 4 ) ) {
         case 0:
            w += "//" + authority() + path_abempty();
            break;
         case 1:
            w += "/" + ( g.r( 2 ) ? pchars() + path_abempty() : std::string() );
            break;
         case 2:
            w += g.pick( { "a", "b.c", "x@y", "%41" } ) + path_abempty();
            break;
         default:
            break;
      }
      if( g.r( 3 ) == 0 )
         w += "?" + pchars() + g.pick( { "", "/", "?", "/?" } );
      if( g.r( 3 ) == 0 )
         w += "#" + pchars() + g.pick( { "", "/", "?" } );
      if( w.size() > 48 )
         continue;
      uri_all( w );
      for( int m = 0; m < 4; ++m ) {
         uri_all( g.mutate( w, interesting ) );
      }
   }
}

int main( int argc, char** argv )
{
   if( argc < 4 ) {
      std::fprintf( stderr, "usage: %s <out-prefix> <section> <quick|thorough> [seed]\n", argv[ 0 ] );
      return 3;
   }
   const std::string section = argv[ 2 ];
   const bool thorough = std::string( argv[ 3 ] ) == "thorough";
   const unsigned seed = argc > 4 ? unsigned( std::atoi( argv[ 4 ] ) ) : 1u;
   W.rotate_at = 6 << 20;
   W.open_rotating( argv[ 1 ] );
   if( section == "lines" ) {
      section_lines( thorough );
   }
   else if( section == "unescape" ) {
      section_unescape( thorough, seed );
   }
   else if( section == "raw" ) {
      section_raw( thorough, seed );
   }
   else if( section == "integer" ) {
      section_integer( thorough );
   }
   else if( section == "json" ) {
      section_json( thorough, seed );
   }
   else if( section == "uri" ) {
      section_uri( thorough, seed );
   }
   else if( section == "codecs" ) {
      section_codecs( thorough, seed );
   }
   else {
      std::fprintf( stderr, "unknown section %s\n", section.c_str() );
      return 3;
   }
   W.close();
   return 0;
}
