// vruns.hpp -- configuration bundles: which (apply mode, rewind mode, action family, control family,
// tracking, eol) combinations a corpus family instantiates for each grammar (DESIGN.md 4.1).
#pragma once

#include "vtrace.hpp"

namespace vt
{
   using pegtl::apply_mode;
   using pegtl::rewind_mode;
   using pegtl::tracking_mode;

   template< typename Root, template< typename... > class Act, template< typename... > class Ctl, apply_mode A, rewind_mode M, tracking_mode T, typename Eol >
   void run_strings( const std::string& sigma, int maxlen, CaseCfg c = CaseCfg() )
   {
      g().fuel_cases = 0;
      for_all_strings( sigma, maxlen, [ & ]( const std::string& s ) {
         if( g().fuel_cases < 3 ) {  // a grammar that keeps running out of fuel is not explored further
            run_memory_case< Root, Act, Ctl, A, M, T, Eol >( c, s );
         }
      } );
   }

   template< typename Root, template< typename... > class Act, template< typename... > class Ctl, apply_mode A, rewind_mode M, tracking_mode T, typename Eol >
   void run_strings_depth( const std::string& sigma, int maxlen, CaseCfg c = CaseCfg() )
   {
      g().fuel_cases = 0;
      c.cls = 1;  // input_with_depth< memory_input >
      for_all_strings( sigma, maxlen, [ & ]( const std::string& s ) {
         if( g().fuel_cases < 3 ) {
            run_memory_case< Root, Act, Ctl, A, M, T, Eol, depth_input >( c, s );
         }
      } );
   }

   template< typename Eol >
   constexpr int eol_id()
   {
      if constexpr( std::is_same_v< Eol, pegtl::eol::lf > )
         return 0;
      else if constexpr( std::is_same_v< Eol, pegtl::eol::cr > )
         return 1;
      else if constexpr( std::is_same_v< Eol, pegtl::eol::crlf > )
         return 2;
      else if constexpr( std::is_same_v< Eol, pegtl::eol::lf_crlf > )
         return 3;
      else
         return 4;
   }

   template< typename Eol >
   CaseCfg cfg_eol()
   {
      CaseCfg c;
      c.eol = eol_id< Eol >();
      return c;
   }

   constexpr auto AA = apply_mode::action;
   constexpr auto AN = apply_mode::nothing;
   constexpr auto MR = rewind_mode::required;
   constexpr auto MO = rewind_mode::optional;
   constexpr auto TE = tracking_mode::eager;
   constexpr auto TL = tracking_mode::lazy;
   using LFCRLF = pegtl::eol::lf_crlf;

   // C01: apply mode x top-level rewind mode x {no actions, void actions}, full visibility with unwind;
   // plus normal visibility / lazy tracking varied one at a time
   template< typename Root >
   void cfgs_core( const std::string& sigma, int maxlen )
   {
      run_strings< Root, pegtl::nothing, tc_full_uw, AA, MR, TE, LFCRLF >( sigma, maxlen );
      run_strings< Root, pegtl::nothing, tc_full_uw, AA, MO, TE, LFCRLF >( sigma, maxlen );
      run_strings< Root, pegtl::nothing, tc_full_uw, AN, MR, TE, LFCRLF >( sigma, maxlen );
      run_strings< Root, pegtl::nothing, tc_full_uw, AN, MO, TE, LFCRLF >( sigma, maxlen );
      run_strings< Root, fam1, tc_full_uw, AA, MR, TE, LFCRLF >( sigma, maxlen );
      run_strings< Root, fam1, tc_full_uw, AA, MO, TE, LFCRLF >( sigma, maxlen );
      run_strings< Root, fam1, tc_full_uw, AN, MR, TE, LFCRLF >( sigma, maxlen );
      run_strings< Root, fam1, tc_full_uw, AN, MO, TE, LFCRLF >( sigma, maxlen );
      run_strings< Root, fam1, tc_hid, AA, MR, TL, LFCRLF >( sigma, maxlen );
      run_strings< Root, fam1, tc_hid_uw, AA, MO, TE, LFCRLF >( sigma, maxlen );
   }

   // a lighter bundle: both top-level rewind modes, full and normal visibility
   template< typename Root >
   void cfgs_light( const std::string& sigma, int maxlen )
   {
      run_strings< Root, pegtl::nothing, tc_full_uw, AA, MR, TE, LFCRLF >( sigma, maxlen );
      run_strings< Root, pegtl::nothing, tc_full_uw, AA, MO, TE, LFCRLF >( sigma, maxlen );
      run_strings< Root, fam1, tc_hid, AA, MR, TL, LFCRLF >( sigma, maxlen );
   }

   // action families with vetoing / throwing actions (C04, C05, C08)
   template< typename Root >
   void cfgs_act( const std::string& sigma, int maxlen )
   {
      run_strings< Root, fam2, tc_full_uw, AA, MR, TE, LFCRLF >( sigma, maxlen );
      run_strings< Root, fam2, tc_hid, AA, MO, TL, LFCRLF >( sigma, maxlen );
      run_strings< Root, fam2, tc_full, AN, MR, TE, LFCRLF >( sigma, maxlen );
      run_strings< Root, fam3, tc_hid_uw, AA, MR, TE, LFCRLF >( sigma, maxlen );
      run_strings< Root, fam3, tc_full_uw, AA, MO, TL, LFCRLF >( sigma, maxlen );
   }

   // global failure: must/raise/try_catch with and without throwing actions (C05, C08)
   template< typename Root >
   void cfgs_exc( const std::string& sigma, int maxlen )
   {
      run_strings< Root, pegtl::nothing, tc_full_uw, AA, MR, TE, LFCRLF >( sigma, maxlen );
      run_strings< Root, pegtl::nothing, tc_hid, AA, MO, TL, LFCRLF >( sigma, maxlen );
      run_strings< Root, fam1, tc_hid_uw, AN, MR, TE, LFCRLF >( sigma, maxlen );
      run_strings< Root, fam3, tc_hid_uw, AA, MR, TL, LFCRLF >( sigma, maxlen );
      run_strings< Root, fam3, tc_full_uw, AA, MO, TE, LFCRLF >( sigma, maxlen );
      run_strings< Root, fam3, tc_full, AA, MR, TE, LFCRLF >( sigma, maxlen );
   }

   // limits (C18): action family 4 on input_with_depth< memory_input >
   template< typename Root >
   void cfgs_lim( const std::string& sigma, int maxlen )
   {
      run_strings_depth< Root, fam4, tc_full_uw, AA, MR, TE, LFCRLF >( sigma, maxlen );
      run_strings_depth< Root, fam4, tc_hid, AN, MO, TL, LFCRLF >( sigma, maxlen );
      run_strings_depth< Root, pegtl::nothing, tc_hid_uw, AA, MR, TE, LFCRLF >( sigma, maxlen );
   }

   // state and action switching (C13): action family 5
   template< typename Root >
   void cfgs_st( const std::string& sigma, int maxlen )
   {
      run_strings< Root, fam5, tc_full_uw, AA, MR, TE, LFCRLF >( sigma, maxlen );
      run_strings< Root, fam5, tc_hid, AA, MO, TL, LFCRLF >( sigma, maxlen );
      run_strings< Root, fam5, tc_full, AN, MR, TE, LFCRLF >( sigma, maxlen );
      run_strings< Root, fam5, tc_hid_uw, AA, MR, TE, LFCRLF >( sigma, maxlen );
   }

   // parse tree (C12): each case is run traced (the contract derives the surviving derivation of the selected rules
   // from it) and then through parse_tree::parse, which logs the tree it built
   template< typename Root >
   void cfgs_tree( const std::string& sigma, int maxlen )
   {
      g().fuel_cases = 0;
      for_all_strings( sigma, maxlen, [ & ]( const std::string& s ) {
         if( g().fuel_cases >= 3 )
            return;
         CaseCfg c;
         c.extra = 1;  // selector by trait
         run_memory_case< Root, pegtl::nothing, tc_hid, AA, MO, TE, LFCRLF >( c, s );
         run_tree_case< Root, vsel, pegtl::nothing >( s );
         c.extra = 2;  // every rule selected (store_all)
         run_memory_case< Root, pegtl::nothing, tc_hid, AA, MO, TE, LFCRLF >( c, s );
         run_tree_case< Root, vsel_all, pegtl::nothing >( s );
         c.extra = 1;  // with throwing actions
         run_memory_case< Root, fam3, tc_hid_uw, AA, MO, TE, LFCRLF >( c, s );
         run_tree_case< Root, vsel, fam3 >( s );
      } );
   }

   // all five end-of-line policies, eager and lazy (C06)
   template< typename Root >
   void cfgs_eol( const std::string& sigma, int maxlen )
   {
      run_strings< Root, fam1, tc_full_uw, AA, MR, TE, pegtl::eol::lf >( sigma, maxlen, cfg_eol< pegtl::eol::lf >() );
      run_strings< Root, fam1, tc_full_uw, AA, MR, TL, pegtl::eol::lf >( sigma, maxlen, cfg_eol< pegtl::eol::lf >() );
      run_strings< Root, fam1, tc_full_uw, AA, MR, TE, pegtl::eol::cr >( sigma, maxlen, cfg_eol< pegtl::eol::cr >() );
      run_strings< Root, fam1, tc_full_uw, AA, MR, TL, pegtl::eol::cr >( sigma, maxlen, cfg_eol< pegtl::eol::cr >() );
      run_strings< Root, fam1, tc_full_uw, AA, MR, TE, pegtl::eol::crlf >( sigma, maxlen, cfg_eol< pegtl::eol::crlf >() );
      run_strings< Root, fam1, tc_full_uw, AA, MR, TL, pegtl::eol::crlf >( sigma, maxlen, cfg_eol< pegtl::eol::crlf >() );
      run_strings< Root, fam1, tc_full_uw, AA, MR, TE, pegtl::eol::lf_crlf >( sigma, maxlen, cfg_eol< pegtl::eol::lf_crlf >() );
      run_strings< Root, fam1, tc_full_uw, AA, MR, TL, pegtl::eol::lf_crlf >( sigma, maxlen, cfg_eol< pegtl::eol::lf_crlf >() );
      run_strings< Root, fam1, tc_full_uw, AA, MR, TE, pegtl::eol::cr_crlf >( sigma, maxlen, cfg_eol< pegtl::eol::cr_crlf >() );
      run_strings< Root, fam1, tc_full_uw, AA, MR, TL, pegtl::eol::cr_crlf >( sigma, maxlen, cfg_eol< pegtl::eol::cr_crlf >() );
   }

   struct Shard
   {
      int shard = 0, nshards = 1, next = 0;
      bool mine()
      {
         return ( next++ % nshards ) == shard;
      }
   };

   inline Shard parse_args( int argc, char** argv )
   {
      if( argc < 3 ) {
         std::fprintf( stderr, "usage: %s <trace-prefix> <table> [shard nshards]\n", argv[ 0 ] );
         std::exit( 3 );
      }
      init( argv[ 1 ], argv[ 2 ] );
      Shard s;
      if( argc >= 5 ) {
         s.shard = std::atoi( argv[ 3 ] );
         s.nshards = std::atoi( argv[ 4 ] );
      }
      return s;
   }

}  // namespace vt
