// vruns.hpp -- configuration bundles: which (apply mode, rewind mode, action family, control family,
// tracking, eol) combinations a corpus family instantiates for each grammar (DESIGN.md 4.1).
#pragma once

#include "vtrace.hpp"
#include <tao/pegtl/internal/cstring_reader.hpp>

#include <cstdio>
#include <fstream>
#include <sstream>
#include <tao/pegtl/argv_input.hpp>
#include <tao/pegtl/contrib/analyze.hpp>
#include <tao/pegtl/cstream_input.hpp>
#include <tao/pegtl/istream_input.hpp>
#include <tao/pegtl/read_input.hpp>
#include <tao/pegtl/string_input.hpp>
#if defined( __unix__ )
#include <tao/pegtl/mmap_input.hpp>
#endif

namespace vt
{
   using pegtl::apply_mode;
   using pegtl::rewind_mode;
   using pegtl::tracking_mode;

   template< typename Root, template< typename... > class Act, template< typename... > class Ctl, apply_mode A, rewind_mode M, tracking_mode T, typename Eol >
   void run_strings( const std::string& sigma, int maxlen, CaseCfg c = CaseCfg() )
   {
      g().fuel_cases = 0;
      for_all_strings( sigma, maxlen, [ & ]( const std::string& s ) {
         if( g().fuel_cases < 3 ) {  // a grammar that keeps running out of fuel is not explored further
            run_memory_case< Root, Act, Ctl, A, M, T, Eol >( c, s );
         }
      } );
   }

   template< typename Root, template< typename... > class Act, template< typename... > class Ctl, apply_mode A, rewind_mode M, tracking_mode T, typename Eol >
   void run_strings_depth( const std::string& sigma, int maxlen, CaseCfg c = CaseCfg() )
   {
      g().fuel_cases = 0;
      c.cls = 1;  // input_with_depth< memory_input >
      for_all_strings( sigma, maxlen, [ & ]( const std::string& s ) {
         if( g().fuel_cases < 3 ) {
            run_memory_case< Root, Act, Ctl, A, M, T, Eol, depth_input >( c, s );
         }
      } );
   }

   template< typename Eol >
   constexpr int eol_id()
   {
      if constexpr( std::is_same_v< Eol, pegtl::eol::lf > )
         return 0;
      else if constexpr( std::is_same_v< Eol, pegtl::eol::cr > )
         return 1;
      else if constexpr( std::is_same_v< Eol, pegtl::eol::crlf > )
         return 2;
      else if constexpr( std::is_same_v< Eol, pegtl::eol::lf_crlf > )
         return 3;
      else
         return 4;
   }

   template< typename Eol >
   CaseCfg cfg_eol()
   {
      CaseCfg c;
      c.eol = eol_id< Eol >();
      return c;
   }

   constexpr auto AA = apply_mode::action;
   constexpr auto AN = apply_mode::nothing;
   constexpr auto MR = rewind_mode::required;
   constexpr auto MO = rewind_mode::optional;
   constexpr auto TE = tracking_mode::eager;
   constexpr auto TL = tracking_mode::lazy;
   using LFCRLF = pegtl::eol::lf_crlf;

   // C01: apply mode x top-level rewind mode x {no actions, void actions}, full visibility with unwind;
   // plus normal visibility / lazy tracking varied one at a time
   template< typename Root >
   void cfgs_core( const std::string& sigma, int maxlen )
   {
      run_strings< Root, pegtl::nothing, tc_full_uw, AA, MR, TE, LFCRLF >( sigma, maxlen );
      run_strings< Root, pegtl::nothing, tc_full_uw, AA, MO, TE, LFCRLF >( sigma, maxlen );
      run_strings< Root, pegtl::nothing, tc_full_uw, AN, MR, TE, LFCRLF >( sigma, maxlen );
      run_strings< Root, pegtl::nothing, tc_full_uw, AN, MO, TE, LFCRLF >( sigma, maxlen );
      run_strings< Root, fam1, tc_full_uw, AA, MR, TE, LFCRLF >( sigma, maxlen );
      run_strings< Root, fam1, tc_full_uw, AA, MO, TE, LFCRLF >( sigma, maxlen );
      run_strings< Root, fam1, tc_full_uw, AN, MR, TE, LFCRLF >( sigma, maxlen );
      run_strings< Root, fam1, tc_full_uw, AN, MO, TE, LFCRLF >( sigma, maxlen );
      run_strings< Root, fam1, tc_hid, AA, MR, TL, LFCRLF >( sigma, maxlen );
      run_strings< Root, fam1, tc_hid_uw, AA, MO, TE, LFCRLF >( sigma, maxlen );
   }

   // a lighter bundle: both top-level rewind modes, full and normal visibility
   template< typename Root >
   void cfgs_light( const std::string& sigma, int maxlen )
   {
      run_strings< Root, pegtl::nothing, tc_full_uw, AA, MR, TE, LFCRLF >( sigma, maxlen );
      run_strings< Root, pegtl::nothing, tc_full_uw, AA, MO, TE, LFCRLF >( sigma, maxlen );
      run_strings< Root, fam1, tc_hid, AA, MR, TL, LFCRLF >( sigma, maxlen );
   }

   // action families with vetoing / throwing actions (C04, C05, C08)
   template< typename Root >
   void cfgs_act( const std::string& sigma, int maxlen )
   {
      run_strings< Root, fam2, tc_full_uw, AA, MR, TE, LFCRLF >( sigma, maxlen );
      run_strings< Root, fam2, tc_hid, AA, MO, TL, LFCRLF >( sigma, maxlen );
      run_strings< Root, fam2, tc_full, AN, MR, TE, LFCRLF >( sigma, maxlen );
      run_strings< Root, fam3, tc_hid_uw, AA, MR, TE, LFCRLF >( sigma, maxlen );
      run_strings< Root, fam3, tc_full_uw, AA, MO, TL, LFCRLF >( sigma, maxlen );
   }

   // global failure: must/raise/try_catch with and without throwing actions (C05, C08)
   template< typename Root >
   void cfgs_exc( const std::string& sigma, int maxlen )
   {
      run_strings< Root, pegtl::nothing, tc_full_uw, AA, MR, TE, LFCRLF >( sigma, maxlen );
      run_strings< Root, pegtl::nothing, tc_hid, AA, MO, TL, LFCRLF >( sigma, maxlen );
      run_strings< Root, fam1, tc_hid_uw, AN, MR, TE, LFCRLF >( sigma, maxlen );
      run_strings< Root, fam3, tc_hid_uw, AA, MR, TL, LFCRLF >( sigma, maxlen );
      run_strings< Root, fam3, tc_full_uw, AA, MO, TE, LFCRLF >( sigma, maxlen );
      run_strings< Root, fam3, tc_full, AA, MR, TE, LFCRLF >( sigma, maxlen );
   }

   // coverage (C08): state_control< tracing control > with the library's coverage state as the last state
   template< typename Root >
   void cfgs_cov( const std::string& sigma, int maxlen )
   {
      g().fuel_cases = 0;
      for_all_strings( sigma, maxlen, [ & ]( const std::string& s ) {
         if( g().fuel_cases >= 3 )
            return;
         run_cov_case< Root, pegtl::nothing, tc_hid_uw, TE, LFCRLF >( CaseCfg(), s );
         run_cov_case< Root, fam3, tc_full_uw, TE, LFCRLF >( CaseCfg(), s );
         run_cov_case< Root, fam3, tc_hid, TL, LFCRLF >( CaseCfg(), s );
         run_cov_case< Root, fam1, tc_full, TE, LFCRLF >( CaseCfg(), s );
         // control_action: the action-side hooks around every invocation, whatever the control's visibility and the apply mode
         run_memory_case< Root, fam8, tc_hid_uw, AA, MR, TE, LFCRLF >( CaseCfg(), s );
         run_memory_case< Root, fam8, tc_full, AN, MO, TL, LFCRLF >( CaseCfg(), s );
         run_trace_case< Root, fam3, tc_hid_uw, true, TE, LFCRLF >( CaseCfg(), s );
         run_trace_case< Root, pegtl::nothing, tc_full_uw, false, TL, LFCRLF >( CaseCfg(), s );
      } );
   }

   // must_if controls (C05): a rule with a message raises on local failure (or as the selective raise_on_failure says)
   template< typename Root >
   void cfgs_mi( const std::string& sigma, int maxlen )
   {
      run_strings< Root, pegtl::nothing, tc_mi1, AA, MR, TE, LFCRLF >( sigma, maxlen );
      run_strings< Root, pegtl::nothing, tc_mi2, AA, MR, TE, LFCRLF >( sigma, maxlen );
      run_strings< Root, fam3, tc_mi1, AA, MO, TL, LFCRLF >( sigma, maxlen );
      run_strings< Root, fam3, tc_mi2, AA, MR, TE, LFCRLF >( sigma, maxlen );
      run_strings< Root, fam1, tc_mi2, AN, MO, TE, LFCRLF >( sigma, maxlen );
   }

   // limits (C18): action family 4 on input_with_depth< memory_input >
   template< typename Root >
   void cfgs_lim( const std::string& sigma, int maxlen )
   {
      run_strings_depth< Root, fam4, tc_full_uw, AA, MR, TE, LFCRLF >( sigma, maxlen );
      run_strings_depth< Root, fam4, tc_hid, AN, MO, TL, LFCRLF >( sigma, maxlen );
      run_strings_depth< Root, pegtl::nothing, tc_hid_uw, AA, MR, TE, LFCRLF >( sigma, maxlen );
   }

   // state and action switching (C13): action family 5
   template< typename Root >
   void cfgs_st( const std::string& sigma, int maxlen )
   {
      run_strings< Root, fam5, tc_full_uw, AA, MR, TE, LFCRLF >( sigma, maxlen );
      run_strings< Root, fam5, tc_hid, AA, MO, TL, LFCRLF >( sigma, maxlen );
      run_strings< Root, fam5, tc_full, AN, MR, TE, LFCRLF >( sigma, maxlen );
      run_strings< Root, fam5, tc_hid_uw, AA, MR, TE, LFCRLF >( sigma, maxlen );
   }

   // parse tree (C12): each case is run traced (the contract derives the surviving derivation of the selected rules
   // from it) and then through parse_tree::parse, which logs the tree it built
   template< typename Root >
   void cfgs_tree( const std::string& sigma, int maxlen )
   {
      g().fuel_cases = 0;
      for_all_strings( sigma, maxlen, [ & ]( const std::string& s ) {
         if( g().fuel_cases >= 3 )
            return;
         CaseCfg c;
         c.extra = 1;  // selector by trait
         run_memory_case< Root, pegtl::nothing, tc_hid, AA, MO, TE, LFCRLF >( c, s );
         run_tree_case< Root, vsel, pegtl::nothing >( s );
         c.extra = 2;  // every rule selected (store_all)
         run_memory_case< Root, pegtl::nothing, tc_hid, AA, MO, TE, LFCRLF >( c, s );
         run_tree_case< Root, vsel_all, pegtl::nothing >( s );
         c.extra = 1;  // with throwing actions
         run_memory_case< Root, fam3, tc_hid_uw, AA, MO, TE, LFCRLF >( c, s );
         run_tree_case< Root, vsel, fam3 >( s );
      } );
   }

   // input classes (C07): every case through memory_input first (the reference the contract also validates), then
   // through buffer_input with scripted readers and through the other input classes
   inline std::vector< std::vector< int > >& reader_schedules()
   {
      static std::vector< std::vector< int > > v;  // filled by main from the TLC-generated schedule file
      return v;
   }
   inline std::string& scratch_file()
   {
      static std::string p;
      return p;
   }

   template< typename Root, template< typename... > class Act, template< typename... > class Ctl, apply_mode A, rewind_mode M >
   void classes_one( const std::string& s )
   {
      CaseCfg c;
      run_memory_case< Root, Act, Ctl, A, M, TE, LFCRLF >( c, s );
      // buffer_input: ample buffer, three chunk sizes, reader delivering everything / byte by byte / 1,2 alternating
      run_buffer_case< Root, Act, Ctl, A, M, LFCRLF, 64 >( c, s, s.size() + 16, {}, 0 );
      run_buffer_case< Root, Act, Ctl, A, M, LFCRLF, 1 >( c, s, s.size() + 16, { 1 }, 1 );
      run_buffer_case< Root, Act, Ctl, A, M, LFCRLF, 2 >( c, s, s.size() + 16, { 1, 2 }, 2 );
      // every way a reader may deliver this many bytes in pieces of 1..3 (generated by TLC from spec/BufferInput.tla)
      int id = 100;
      for( const auto& sch : reader_schedules() ) {
         int sum = 0;
         for( int k : sch )
            sum += k;
         if( sum == int( s.size() ) && sch.size() > 1 ) {
            run_buffer_case< Root, Act, Ctl, A, M, LFCRLF, 1 >( c, s, s.size() + 16, sch, id );
         }
         ++id;
      }
      // a buffer that is too small for some of the look-ahead: the only permitted deviation is std::overflow_error
      run_buffer_case< Root, Act, Ctl, A, M, LFCRLF, 1 >( c, s, 1, { 2, 1 }, 3 );
      run_buffer_case< Root, Act, Ctl, A, M, LFCRLF, 2 >( c, s, 2, {}, 4 );
   }

   template< typename Root, template< typename... > class Act, template< typename... > class Ctl, apply_mode A, rewind_mode M >
   void classes_files( const std::string& s )
   {
      CaseCfg c;
      // an exception that escapes the construction of an input (reading, mapping, ...) is part of what the input class does
      // with these bytes: it is logged as the outcome of the case
      try {
         pegtl::string_input<> in( s, "src" );
         run_input_case< Root, Act, Ctl, A, M >( c, 3, s, in );
      }
      catch( ... ) {
         input_ctor_failed< Root, Act, Ctl, A, M >( c, 3, 0, s );
      }
      {
         std::ofstream f( scratch_file(), std::ios::binary | std::ios::trunc );
         f.write( s.data(), std::streamsize( s.size() ) );
      }
      try {
         pegtl::read_input<> in( scratch_file() );
         run_input_case< Root, Act, Ctl, A, M >( c, 4, s, in );
      }
      catch( ... ) {
         input_ctor_failed< Root, Act, Ctl, A, M >( c, 4, 0, s );
      }
      try {
         pegtl::read_input< pegtl::tracking_mode::lazy > in( scratch_file() );
         run_input_case< Root, Act, Ctl, A, M >( c, 4, s, in );
      }
      catch( ... ) {
         input_ctor_failed< Root, Act, Ctl, A, M >( c, 4, 1, s );
      }
#if defined( __unix__ )
      if( !s.empty() ) {
         try {
            pegtl::mmap_input<> in( scratch_file() );
            run_input_case< Root, Act, Ctl, A, M >( c, 5, s, in );
         }
         catch( ... ) {
            input_ctor_failed< Root, Act, Ctl, A, M >( c, 5, 0, s );
         }
      }
#endif
      try {
         // file_input: mmap_input where available, else read_input; empty files included
         pegtl::file_input<> in( scratch_file() );
         run_input_case< Root, Act, Ctl, A, M >( c, 5, s, in );
      }
      catch( ... ) {
         input_ctor_failed< Root, Act, Ctl, A, M >( c, 5, 0, s );
      }
      if( s.find( '\0' ) == std::string::npos ) {
         try {
            std::string copy = s;
            char* argv[] = { const_cast< char* >( "prog" ), copy.data(), nullptr };
            pegtl::argv_input<> in( argv, 1 );
            run_input_case< Root, Act, Ctl, A, M >( c, 6, s, in );
         }
         catch( ... ) {
            input_ctor_failed< Root, Act, Ctl, A, M >( c, 6, 0, s );
         }
      }
      if( s.find( '\0' ) == std::string::npos ) {
         try {
            // buffer_input over the reader for NUL-terminated strings
            pegtl::buffer_input< pegtl::internal::cstring_reader > in( "src", s.size() + 16, s.c_str() );
            run_input_case< Root, Act, Ctl, A, M >( c, 9, s, in );
         }
         catch( ... ) {
            input_ctor_failed< Root, Act, Ctl, A, M >( c, 9, 0, s );
         }
      }
      try {
         std::istringstream is( s );
         pegtl::istream_input<> in( is, s.size() + 16, "src" );
         run_input_case< Root, Act, Ctl, A, M >( c, 7, s, in );
      }
      catch( ... ) {
         input_ctor_failed< Root, Act, Ctl, A, M >( c, 7, 0, s );
      }
      if( std::FILE* fp = std::fopen( scratch_file().c_str(), "rb" ) ) {
         try {
            pegtl::cstream_input<> in( fp, s.size() + 16, "src" );
            run_input_case< Root, Act, Ctl, A, M >( c, 8, s, in );
         }
         catch( ... ) {
            input_ctor_failed< Root, Act, Ctl, A, M >( c, 8, 0, s );
         }
         std::fclose( fp );
      }
   }

   template< typename Root >
   void cfgs_classes( const std::string& sigma, int maxlen )
   {
      g().fuel_cases = 0;
      for_all_strings( sigma, maxlen, [ & ]( const std::string& s ) {
         if( g().fuel_cases >= 3 )
            return;
         classes_one< Root, fam1, tc_full_uw, AA, MR >( s );
         classes_one< Root, fam2, tc_hid, AA, MO >( s );
         classes_files< Root, fam1, tc_hid_uw, AA, MR >( s );
      } );
   }

   // grammar analysis (C11): what analyze< Root >() reports, then fuel-limited real runs on every short input
   template< typename Root >
   void cfgs_ana( const std::string& sigma, int maxlen )
   {
      Global& G = g();
      describe< Root >();
      const std::size_t problems = pegtl::analyze< Root >( -1 );
      {
         Writer& w = G.tr;
         w.maybe_rotate();
         w.s( "{\"k\":\"ana\"" );
         w.kv( "g", rid< Root >() );
         w.kv( "p", (long long)problems );
         w.s( "}\n" );
      }
      const long long fuel = G.fuel;
      const int md = G.max_depth;
      G.fuel = 600;        // a grammar that loops without progress is cut early: keeps the traces small
      G.max_depth = 60;
      g().fuel_cases = -1000000;   // do not stop exploring a grammar because it runs out of fuel: that is the point here
      for_all_strings( sigma, maxlen, [ & ]( const std::string& s ) {
         CaseCfg c;
         run_memory_case< Root, pegtl::nothing, tc_hid, AA, MR, TE, LFCRLF >( c, s );
      } );
      G.fuel = fuel;
      G.max_depth = md;
   }

   // bounds (C03): exact-size heap block (the harness is built with AddressSanitizer for this family), and slices whose
   // surroundings would extend a match -- the last byte repeated, digits, UTF-8 continuation bytes
   template< typename Root >
   void cfgs_oob( const std::string& sigma, int maxlen )
   {
      g().fuel_cases = 0;
      for_all_strings( sigma, maxlen, [ & ]( const std::string& s ) {
         if( g().fuel_cases >= 3 )
            return;
         CaseCfg c;
         run_memory_case< Root, pegtl::nothing, tc_hid, AA, MR, TE, LFCRLF >( c, s );
         run_memory_case< Root, fam1, tc_hid, AA, MO, TL, LFCRLF >( c, s );
         const std::string rep = s.empty() ? std::string( "aaaa" ) : std::string( 4, s.back() );
         run_slice_case< Root, pegtl::nothing, tc_hid, AA, MR, TE, LFCRLF >( c, s, rep );
         run_slice_case< Root, pegtl::nothing, tc_hid, AA, MO, TL, LFCRLF >( c, s, "1234" );
         run_slice_case< Root, fam1, tc_hid, AA, MR, TE, LFCRLF >( c, s, std::string( "\x80\xbf\x80\x80", 4 ) );
         run_slice_case< Root, pegtl::nothing, tc_hid, AA, MR, TE, LFCRLF >( c, s, sigma + sigma );
      } );
   }

   template< typename Root >
   void cfgs_oob4( const std::string& sigma, int maxlen )   // the same with the limits family (limit_bytes lowers the end)
   {
      g().fuel_cases = 0;
      for_all_strings( sigma, maxlen, [ & ]( const std::string& s ) {
         if( g().fuel_cases >= 3 )
            return;
         CaseCfg c;
         run_memory_case< Root, fam4, tc_hid, AA, MR, TE, LFCRLF >( c, s );
         const std::string rep = s.empty() ? std::string( "aaaa" ) : std::string( 4, s.back() );
         run_slice_case< Root, fam4, tc_hid, AA, MR, TL, LFCRLF >( c, s, rep );
         run_slice_case< Root, fam4, tc_hid, AA, MO, TE, LFCRLF >( c, s, sigma + sigma );
      } );
   }

   // all five end-of-line policies, eager and lazy (C06)
   template< typename Root >
   void cfgs_eol( const std::string& sigma, int maxlen )
   {
      run_strings< Root, fam1, tc_full_uw, AA, MR, TE, pegtl::eol::lf >( sigma, maxlen, cfg_eol< pegtl::eol::lf >() );
      run_strings< Root, fam1, tc_full_uw, AA, MR, TL, pegtl::eol::lf >( sigma, maxlen, cfg_eol< pegtl::eol::lf >() );
      run_strings< Root, fam1, tc_full_uw, AA, MR, TE, pegtl::eol::cr >( sigma, maxlen, cfg_eol< pegtl::eol::cr >() );
      run_strings< Root, fam1, tc_full_uw, AA, MR, TL, pegtl::eol::cr >( sigma, maxlen, cfg_eol< pegtl::eol::cr >() );
      run_strings< Root, fam1, tc_full_uw, AA, MR, TE, pegtl::eol::crlf >( sigma, maxlen, cfg_eol< pegtl::eol::crlf >() );
      run_strings< Root, fam1, tc_full_uw, AA, MR, TL, pegtl::eol::crlf >( sigma, maxlen, cfg_eol< pegtl::eol::crlf >() );
      run_strings< Root, fam1, tc_full_uw, AA, MR, TE, pegtl::eol::lf_crlf >( sigma, maxlen, cfg_eol< pegtl::eol::lf_crlf >() );
      run_strings< Root, fam1, tc_full_uw, AA, MR, TL, pegtl::eol::lf_crlf >( sigma, maxlen, cfg_eol< pegtl::eol::lf_crlf >() );
      run_strings< Root, fam1, tc_full_uw, AA, MR, TE, pegtl::eol::cr_crlf >( sigma, maxlen, cfg_eol< pegtl::eol::cr_crlf >() );
      run_strings< Root, fam1, tc_full_uw, AA, MR, TL, pegtl::eol::cr_crlf >( sigma, maxlen, cfg_eol< pegtl::eol::cr_crlf >() );
   }

   struct Shard
   {
      int shard = 0, nshards = 1, next = 0;
      bool mine()
      {
         return ( next++ % nshards ) == shard;
      }
   };

   inline Shard parse_args( int argc, char** argv )
   {
      if( argc < 3 ) {
         std::fprintf( stderr, "usage: %s <trace-prefix> <table> [shard nshards]\n", argv[ 0 ] );
         std::exit( 3 );
      }
      init( argv[ 1 ], argv[ 2 ] );
      Shard s;
      if( argc >= 5 ) {
         s.shard = std::atoi( argv[ 3 ] );
         s.nshards = std::atoi( argv[ 4 ] );
      }
      scratch_file() = std::string( argv[ 1 ] ) + ".scratch";
      if( argc >= 6 ) {
         // reader schedules, one per line: space separated piece sizes
         std::ifstream f( argv[ 5 ] );
         std::string line;
         while( std::getline( f, line ) ) {
            std::istringstream ls( line );
            std::vector< int > v;
            int k;
            while( ls >> k )
               v.push_back( k );
            reader_schedules().push_back( v );
         }
      }
      return s;
   }

}  // namespace vt
