// vtrace.hpp -- observation seam for PEGTL: a tracing control class, action families,
// a rule registry (grammar extraction) and an ndjson event writer.
//
// Everything here is harness code; it observes the library exclusively through the
// public Control<Rule>::match / start / success / failure / unwind / raise / apply / apply0
// interface (DESIGN.md section 1(a)) and through Rule::rule_t / Rule::subs_t (section 1(b)).
#pragma once

#include <cxxabi.h>
#include <unistd.h>

#include <csignal>
#include <cstdint>
#include <cstdio>
#include <cstdlib>
#include <cstring>
#include <exception>
#include <stdexcept>
#include <string>
#include <string_view>
#include <typeinfo>
#include <vector>

#include <sstream>
#include <iostream>
#include <tao/pegtl.hpp>
#include <tao/pegtl/contrib/check_bytes.hpp>
#include <tao/pegtl/contrib/control_action.hpp>
#include <tao/pegtl/contrib/coverage.hpp>
#include <tao/pegtl/contrib/trace.hpp>
#include <tao/pegtl/contrib/input_with_depth.hpp>
#include <tao/pegtl/contrib/limit_bytes.hpp>
#include <tao/pegtl/contrib/limit_depth.hpp>
#include <tao/pegtl/contrib/parse_tree.hpp>
#include <map>

namespace vt
{
   namespace pegtl = tao::pegtl;

   // ------------------------------------------------------------------ writer

   struct Writer
   {
      std::string buf;
      FILE* f = nullptr;
      std::string prefix;       // rotating output: prefix.NNN.ndjson
      int part = 0;
      long long written = 0;    // bytes in the current part
      long long rotate_at = 8 << 20;
      void open_rotating( const char* pfx )
      {
         prefix = pfx;
         part = 0;
         next_part();
      }
      void next_part()
      {
         close();
         char tmp[ 32 ];
         std::snprintf( tmp, sizeof tmp, ".%04d.ndjson", part++ );
         open( ( prefix + tmp ).c_str() );
         written = 0;
      }
      // called at case boundaries only
      void maybe_rotate()
      {
         if( !prefix.empty() && written + (long long)buf.size() > rotate_at ) {
            next_part();
         }
      }
      void open( const char* path )
      {
         f = std::fopen( path, "w" );
         if( !f ) {
            std::perror( path );
            std::exit( 3 );
         }
         buf.reserve( 1 << 20 );
      }
      void flush()
      {
         if( f && !buf.empty() ) {
            std::fwrite( buf.data(), 1, buf.size(), f );
            written += (long long)buf.size();
            buf.clear();
            std::fflush( f );
         }
      }
      void maybe_flush()
      {
         if( buf.size() > ( 1 << 19 ) ) {
            flush();
         }
      }
      void close()
      {
         flush();
         if( f ) {
            std::fclose( f );
            f = nullptr;
         }
      }
      void s( const char* t )
      {
         buf += t;
      }
      void i( long long v )
      {
         char tmp[ 32 ];
         int n = std::snprintf( tmp, sizeof tmp, "%lld", v );
         buf.append( tmp, std::size_t( n ) );
      }
      void kv( const char* k, long long v )
      {
         buf += ",\"";
         buf += k;
         buf += "\":";
         i( v );
      }
      void str( const char* k, std::string_view v )
      {
         buf += ",\"";
         buf += k;
         buf += "\":\"";
         for( unsigned char c : v ) {
            if( c == '"' || c == '\\' ) {
               buf += '\\';
               buf += char( c );
            }
            else if( c < 0x20 || c >= 0x7f ) {
               char tmp[ 8 ];
               std::snprintf( tmp, sizeof tmp, "\\u%04x", unsigned( c ) );
               buf += tmp;
            }
            else {
               buf += char( c );
            }
         }
         buf += '"';
      }
      void bytes( const char* k, const char* p, std::size_t n )
      {
         buf += ",\"";
         buf += k;
         buf += "\":[";
         for( std::size_t j = 0; j < n; ++j ) {
            if( j )
               buf += ',';
            i( static_cast< unsigned char >( p[ j ] ) );
         }
         buf += ']';
      }
   };

   // ------------------------------------------------------------------ global run state

   struct Global
   {
      Writer tr;                    // trace events
      Writer tb;                    // grammar table
      const char* base = nullptr;   // start of the current case's data (offset origin)
      long long base_byte = 0;      // initial byte counter of the case (b0)
      long long events = 0;         // per case, for the fuel limit
      long long fuel = 20000;       // max events per case
      int depth = 0;                // open wrapper frames
      int max_depth = 400;
      long long case_id = 0;
      bool tracing = true;          // false: only results are wanted
      bool in_case = false;
      long long acc = 0;            // accesses reported by the TAO_PEGTL_VERIF hook in the current case
      int oob = 0;                  // of which outside the window
      bool by_bytes = false;        // current case runs on an incremental input: offsets come from the byte counters
      long long next_sid = 0;       // serial numbers of instrumented state objects
      int fuel_cases = 0;           // cases of the current bundle that ran out of fuel
      std::vector< std::string > inputs;  // explicit inputs, used in addition to the enumerated strings
   };

   inline Global& g()
   {
      static Global x;
      return x;
   }

   struct fuel_exhausted
   {
      int what;  // 1 events, 2 depth
   };

   // foreign exception thrown by harness actions (deliberately not derived from std::exception)
   struct foreign_error
   {
      int vid;
   };

   // ------------------------------------------------------------------ access hook (C03)
}  // namespace vt
#if defined( TAO_PEGTL_VERIF )
// called by memory_input / buffer_input for every peek (kind 0: offset) and bump (kind 1: count) with the number of
// bytes available in the input's current window (which may be a lowered end, or the inner input of rematch)
extern "C" inline void tao_pegtl_verif_access( int kind, std::size_t amount, std::size_t available ) noexcept
{
   vt::Global& G = vt::g();
   if( !G.in_case )
      return;
   ++G.acc;
   const bool bad = ( kind == 0 ) ? ( amount >= available ) : ( amount > available );
   if( bad && G.oob++ < 5 && G.tracing ) {
      vt::Writer& w = G.tr;
      w.s( "{\"k\":\"oob\"" );
      w.kv( "kind", kind );
      w.kv( "n", (long long)amount );
      w.kv( "avail", (long long)( available > ( std::size_t( 1 ) << 40 ) ? -1 : (long long)available ) );
      w.s( "}\n" );
   }
}
#endif
namespace vt
{
   // ------------------------------------------------------------------ registry / extraction

   inline std::string cxx_name( const std::type_info& ti )
   {
      int st = 0;
      char* p = abi::__cxa_demangle( ti.name(), nullptr, nullptr, &st );
      std::string r = ( st == 0 && p ) ? p : ti.name();
      std::free( p );
      return r;
   }

   struct NodeInfo
   {
      std::string name;
      bool described = false;
   };

   // pegtl's own demangled name -> node id (parse tree nodes carry only that name)
   inline std::map< std::string, int >& dn2id()
   {
      static std::map< std::string, int > m;
      return m;
   }

   inline std::vector< NodeInfo >& nodes()
   {
      static std::vector< NodeInfo > v( 1 );  // ids start at 1
      return v;
   }

   inline int alloc_id( const std::type_info& ti )
   {
      nodes().push_back( NodeInfo{ cxx_name( ti ), false } );
      return int( nodes().size() ) - 1;
   }

   template< typename Rule >
   int rid()
   {
      static const int id = alloc_id( typeid( Rule ) );
      return id;
   }

   template< typename T, typename = void >
   inline constexpr int vid_of = 0;
   template< typename T >
   inline constexpr int vid_of< T, std::void_t< decltype( T::vid ) > > = T::vid;

   template< typename T, typename = void >
   inline constexpr long long ak_of = 0;
   template< typename T >
   inline constexpr long long ak_of< T, std::void_t< decltype( T::ak ) > > = T::ak;

   template< typename T, typename = void >
   inline constexpr int lim_of = 0;  // limit attached in action family 4: kind * 1000 + N (1 limit_depth, 2 limit_bytes, 3 check_bytes)
   template< typename T >
   inline constexpr int lim_of< T, std::void_t< decltype( T::lim ) > > = T::lim;

   template< typename T, typename = void >
   inline constexpr int sw_of = 0;  // switch attached in action family 5 (C13), see sw_body below
   template< typename T >
   inline constexpr int sw_of< T, std::void_t< decltype( T::sw ) > > = T::sw;

   template< typename T, typename = void >
   inline constexpr int sel_of = 0;  // parse-tree selector mask
   template< typename T >
   inline constexpr int sel_of< T, std::void_t< decltype( T::sel ) > > = T::sel;

   // must_if (C05): a rule type may carry  static constexpr const char* mi_message = "..."  (its message in the Errors
   // class given to must_if) and  static constexpr bool mi_rof = ...  (its entry in Errors::raise_on_failure)
   template< typename T, typename = void >
   inline constexpr const char* mimsg_of = nullptr;
   template< typename T >
   inline constexpr const char* mimsg_of< T, std::void_t< decltype( T::mi_message ) > > = T::mi_message;
   template< typename T, typename = void >
   inline constexpr int mirof_of = -1;   // -1: no entry (Errs2 then answers false)
   template< typename T >
   inline constexpr int mirof_of< T, std::void_t< decltype( T::mi_rof ) > > = T::mi_rof ? 1 : 0;

   template< typename T, typename = void >
   struct emsg_of
   {
      static constexpr bool has = false;
      static std::string_view get()
      {
         return {};
      }
   };
   template< typename T >
   struct emsg_of< T, std::void_t< decltype( T::error_message ) > >
   {
      static constexpr bool has = true;
      static std::string_view get()
      {
         return T::error_message;
      }
   };

   template< typename Rule >
   void describe();

   template< typename L >
   struct describe_list;
   template< typename... Ts >
   struct describe_list< pegtl::type_list< Ts... > >
   {
      static void run( std::vector< int >& out )
      {
         ( ( describe< Ts >(), out.push_back( rid< Ts >() ) ), ... );
      }
   };

   // a few contrib rules (http::chunk_size, ...) define rule_t but no subs_t of their own
   template< typename Rule, typename = void >
   struct subs_of
   {
      using type = typename Rule::rule_t::subs_t;
   };
   template< typename Rule >
   struct subs_of< Rule, std::void_t< typename Rule::subs_t > >
   {
      using type = typename Rule::subs_t;
   };

   template< typename T, typename = void >
   inline constexpr bool is_rule = false;
   template< typename T >
   inline constexpr bool is_rule< T, std::void_t< typename T::rule_t > > = true;

   template< typename Rule >
   void describe()
   {
      const int id = rid< Rule >();
      if( nodes()[ std::size_t( id ) ].described ) {
         return;
      }
      nodes()[ std::size_t( id ) ].described = true;
      dn2id()[ std::string( pegtl::demangle< Rule >() ) ] = id;
      if constexpr( !is_rule< Rule > ) {
         // a type that is only named by raise< T > or used as Control< T >::raise (limit_depth< N >, ...)
         Writer& w = g().tb;
         w.s( "{\"id\":" );
         w.i( id );
         w.str( "name", nodes()[ std::size_t( id ) ].name );
         w.str( "rule_t", "" );
         w.str( "dn", pegtl::demangle< Rule >() );
         w.s( ",\"subs\":[]" );
         w.kv( "en", 0 );
         w.kv( "vid", 0 );
         w.kv( "ak", 0 );
         w.kv( "sel", 0 );
         w.kv( "lim", 0 );
         w.kv( "sw", 0 );
         w.kv( "hasmsg", emsg_of< Rule >::has ? 1 : 0 );
         w.str( "emsg", emsg_of< Rule >::get() );
         w.s( "}\n" );
         return;
      }
      else {
      std::vector< int > kids;
      describe_list< typename subs_of< Rule >::type >::run( kids );
      Writer& w = g().tb;
      w.s( "{\"id\":" );
      w.i( id );
      w.str( "name", nodes()[ std::size_t( id ) ].name );
      w.str( "rule_t", cxx_name( typeid( typename Rule::rule_t ) ) );
      w.str( "dn", pegtl::demangle< Rule >() );
      w.s( ",\"subs\":[" );
      for( std::size_t j = 0; j < kids.size(); ++j ) {
         if( j )
            w.s( "," );
         w.i( kids[ j ] );
      }
      w.s( "]" );
      w.kv( "en", pegtl::normal< Rule >::enable ? 1 : 0 );
      w.kv( "vid", vid_of< Rule > );
      w.kv( "ak", ak_of< Rule > );
      w.kv( "sel", sel_of< Rule > );
      w.kv( "lim", lim_of< Rule > );
      w.kv( "sw", sw_of< Rule > );
      w.kv( "hasmsg", emsg_of< Rule >::has ? 1 : 0 );
      w.str( "emsg", emsg_of< Rule >::get() );
      w.kv( "mihas", mimsg_of< Rule > != nullptr ? 1 : 0 );
      w.str( "mimsg", mimsg_of< Rule > != nullptr ? std::string_view( mimsg_of< Rule > ) : std::string_view() );
      w.kv( "mirof", mirof_of< Rule > );
      w.s( "}\n" );
      w.maybe_flush();
      }
   }

   // ------------------------------------------------------------------ cursors

   struct Cur
   {
      long long b, l, c, o, e;
   };

   template< typename In, typename = void >
   inline constexpr bool is_buffer_like = false;
   template< typename In >
   inline constexpr bool is_buffer_like< In, std::void_t< decltype( std::declval< const In& >().buffer_occupied() ) > > = true;

   template< typename In >
   Cur cur_of( const In& in )
   {
      Cur r{};
      const auto p = in.position();
      r.b = (long long)p.byte;
      r.l = (long long)p.line;
      r.c = (long long)p.column;
      if constexpr( is_buffer_like< In > ) {
         r.o = r.b - g().base_byte;
         r.e = -1;
      }
      else if( g().by_bytes ) {
         // a memory_input created by rematch<> inside an incremental input: its pointers lead into the buffer
         r.o = r.b - g().base_byte;
         r.e = r.o + ( in.end() - in.current() );
      }
      else {
         r.o = in.current() - g().base;
         r.e = in.end() - g().base;
      }
      return r;
   }

   inline void put_cur( Writer& w, const Cur& c )
   {
      w.kv( "b", c.b );
      w.kv( "l", c.l );
      w.kv( "c", c.c );
      w.kv( "o", c.o );
      w.kv( "e", c.e );
   }

   template< typename In, typename = void >
   struct depth_of
   {
      static long long get( const In& )
      {
         return -1;
      }
   };
   template< typename In >
   struct depth_of< In, std::void_t< decltype( std::declval< const In& >().current_depth() ) > >
   {
      static long long get( const In& in )
      {
         return (long long)in.current_depth();
      }
   };

   // state instance ids (C13): the innermost state is the first of st...
   template< typename S, typename = void >
   struct sid_of
   {
      static long long get( const S& )
      {
         return 0;
      }
   };
   template< typename S >
   struct sid_of< S, std::void_t< decltype( std::declval< const S& >().vsid ) > >
   {
      static long long get( const S& s )
      {
         return s.vsid;
      }
   };
   inline long long first_sid()
   {
      return 0;
   }
   template< typename S, typename... Ss >
   long long first_sid( const S& s, const Ss&... )
   {
      return sid_of< std::decay_t< S > >::get( s );
   }

   // ------------------------------------------------------------------ family ids

   template< typename T, typename = void >
   inline constexpr int afam_of_type = 0;
   template< typename T >
   inline constexpr int afam_of_type< T, std::void_t< decltype( T::vfam ) > > = T::vfam;

   template< template< typename... > class Action >
   inline constexpr int afam_of = afam_of_type< Action< void > >;

   // ------------------------------------------------------------------ exception classification

   enum : int
   {
      X_PARSE_ERROR = 1,
      X_STD = 2,
      X_FOREIGN = 3,
      X_FUEL = 4,
      X_OVERFLOW = 5,
      X_UNKNOWN = 6
   };

   struct XInfo
   {
      int cls = 0;
      int nested = 0;
      long long pb = -1, pl = -1, pc = -1;
      std::string msg, what, src;
   };

   inline XInfo classify_current()
   {
      XInfo x;
      try {
         throw;
      }
      catch( const pegtl::parse_error& e ) {
         x.cls = X_PARSE_ERROR;
         const auto& p = e.position_object();
         x.pb = (long long)p.byte;
         x.pl = (long long)p.line;
         x.pc = (long long)p.column;
         x.src = p.source;
         x.msg = std::string( e.message() );
         x.what = e.what();
         try {
            std::rethrow_if_nested( e );
         }
         catch( ... ) {
            x.nested = 1;
         }
      }
      catch( const std::overflow_error& e ) {
         x.cls = X_OVERFLOW;
         x.what = e.what();
      }
      catch( const std::exception& e ) {
         x.cls = X_STD;
         x.what = e.what();
      }
      catch( const foreign_error& e ) {
         x.cls = X_FOREIGN;
         x.pb = e.vid;
      }
      catch( const fuel_exhausted& e ) {
         x.cls = X_FUEL;
         x.pb = e.what;
      }
      catch( ... ) {
         x.cls = X_UNKNOWN;
      }
      return x;
   }

   inline int classify_current_cls()
   {
      try {
         throw;
      }
      catch( const pegtl::parse_error& ) {
         return X_PARSE_ERROR;
      }
      catch( const std::overflow_error& ) {
         return X_OVERFLOW;
      }
      catch( const std::exception& ) {
         return X_STD;
      }
      catch( const foreign_error& ) {
         return X_FOREIGN;
      }
      catch( const fuel_exhausted& ) {
         return X_FUEL;
      }
      catch( ... ) {
         return X_UNKNOWN;
      }
   }

   // ------------------------------------------------------------------ event helpers

   inline void tick()
   {
      Global& G = g();
      if( ++G.events > G.fuel ) {
         G.events = -( 1LL << 40 );  // let the unwinding log freely
         throw fuel_exhausted{ 1 };
      }
   }

   template< typename In >
   void hook_event( const char* k, int r, int cf, const In& in )
   {
      Global& G = g();
      if( !G.tracing )
         return;
      Writer& w = G.tr;
      w.s( "{\"k\":\"" );
      w.s( k );
      w.s( "\"" );
      w.kv( "r", r );
      put_cur( w, cur_of( in ) );
      w.kv( "cf", cf );
      w.s( "}\n" );
   }

   // ------------------------------------------------------------------ tracing control
   //
   // Full   : every rule is visible to the hooks (enable = true), else normal<>'s visibility.
   // Unwind : the control defines unwind().
   // CF     : control family id logged with every event.

   template< typename Rule, bool Full, bool Unwind, int CF, template< typename... > class Base = pegtl::normal >
   struct tc_impl : Base< Rule >
   {
      static constexpr bool enable = Full ? true : Base< Rule >::enable;
      static constexpr int vcfam = CF;

      template< typename In, typename... St >
      static void start( const In& in, St&&... st )
      {
         hook_event( "st", rid< Rule >(), CF, in );
         Base< Rule >::start( in, st... );
      }
      template< typename In, typename... St >
      static void success( const In& in, St&&... st )
      {
         hook_event( "su", rid< Rule >(), CF, in );
         Base< Rule >::success( in, st... );
      }
      template< typename In, typename... St >
      static void failure( const In& in, St&&... st )
      {
         hook_event( "fa", rid< Rule >(), CF, in );
         Base< Rule >::failure( in, st... );
      }
      template< typename In, typename... St >
      [[noreturn]] static void raise( const In& in, St&&... st )
      {
         describe< Rule >();
         hook_event( "ra", rid< Rule >(), CF, in );
         Base< Rule >::raise( in, st... );
      }

      template< template< typename... > class Action, typename Iter, typename In, typename... St >
      static auto apply( const Iter& begin, const In& in, St&&... st )
         -> decltype( Base< Rule >::template apply< Action >( begin, in, st... ) )
      {
         Global& G = g();
         using R = decltype( Base< Rule >::template apply< Action >( begin, in, st... ) );
         const typename In::action_t ai( begin, in );
         const auto p = ai.position();
         auto emit = [ & ]( int v ) {
            if( !G.tracing )
               return;
            Writer& w = G.tr;
            w.s( "{\"k\":\"ap\"" );
            w.kv( "r", rid< Rule >() );
            w.kv( "af", afam_of< Action > );
            w.kv( "b", (long long)p.byte );
            w.kv( "l", (long long)p.line );
            w.kv( "c", (long long)p.column );
            // offsets from the byte counters: valid for memory and for incremental inputs alike
            const long long ob = (long long)p.byte - G.base_byte;
            w.kv( "o", ob );
            w.kv( "eo", ob + (long long)ai.size() );
            w.kv( "n", (long long)ai.size() );
            w.kv( "io", cur_of( in ).o );
            w.kv( "v", v );
            w.kv( "s", first_sid( st... ) );
            w.s( "}\n" );
         };
         try {
            if constexpr( std::is_same_v< R, void > ) {
               Base< Rule >::template apply< Action >( begin, in, st... );
               emit( 0 );
            }
            else {
               const R r = Base< Rule >::template apply< Action >( begin, in, st... );
               emit( r ? 1 : 2 );
               return r;
            }
         }
         catch( ... ) {
            emit( 3 );
            throw;
         }
      }

      template< template< typename... > class Action, typename In, typename... St >
      static auto apply0( const In& in, St&&... st )
         -> decltype( Base< Rule >::template apply0< Action >( in, st... ) )
      {
         Global& G = g();
         using R = decltype( Base< Rule >::template apply0< Action >( in, st... ) );
         auto emit = [ & ]( int v ) {
            if( !G.tracing )
               return;
            Writer& w = G.tr;
            w.s( "{\"k\":\"a0\"" );
            w.kv( "r", rid< Rule >() );
            w.kv( "af", afam_of< Action > );
            w.kv( "io", cur_of( in ).o );
            w.kv( "v", v );
            w.kv( "s", first_sid( st... ) );
            w.s( "}\n" );
         };
         try {
            if constexpr( std::is_same_v< R, void > ) {
               Base< Rule >::template apply0< Action >( in, st... );
               emit( 0 );
            }
            else {
               const R r = Base< Rule >::template apply0< Action >( in, st... );
               emit( r ? 1 : 2 );
               return r;
            }
         }
         catch( ... ) {
            emit( 3 );
            throw;
         }
      }

      template< pegtl::apply_mode A, pegtl::rewind_mode M, template< typename... > class Action, template< typename... > class Control, typename In, typename... St >
      [[nodiscard]] static bool match( In& in, St&&... st )
      {
         Global& G = g();
         const int r = rid< Rule >();
         describe< Rule >();
         if( G.tracing ) {
            Writer& w = G.tr;
            w.s( "{\"k\":\"en\"" );
            w.kv( "r", r );
            w.kv( "A", A == pegtl::apply_mode::action ? 1 : 0 );
            w.kv( "M", M == pegtl::rewind_mode::required ? 1 : 0 );
            put_cur( w, cur_of( in ) );
            w.kv( "af", afam_of< Action > );
            w.kv( "cf", Control< Rule >::vcfam );
            w.kv( "d", depth_of< In >::get( in ) );
            w.kv( "s", first_sid( st... ) );
            w.s( "}\n" );
            w.maybe_flush();
         }
         struct Depth
         {
            Global& G;
            explicit Depth( Global& gg )
               : G( gg )
            {
               ++G.depth;
            }
            ~Depth()
            {
               --G.depth;
            }
         } dg( G );
         if( G.depth > G.max_depth ) {
            // treat like an exception thrown by the rule body: log and propagate
            if( G.tracing ) {
               Writer& w = G.tr;
               w.s( "{\"k\":\"xc\"" );
               w.kv( "r", r );
               w.kv( "x", X_FUEL );
               put_cur( w, cur_of( in ) );
               w.kv( "d", depth_of< In >::get( in ) );
               w.s( "}\n" );
            }
            throw fuel_exhausted{ 2 };
         }
         try {
            tick();
            const bool res = Base< Rule >::template match< A, M, Action, Control >( in, st... );
            if( G.tracing ) {
               Writer& w = G.tr;
               w.s( "{\"k\":\"ex\"" );
               w.kv( "r", r );
               w.kv( "v", res ? 1 : 0 );
               put_cur( w, cur_of( in ) );
               w.kv( "d", depth_of< In >::get( in ) );
               w.s( "}\n" );
            }
            return res;
         }
         catch( ... ) {
            if( G.tracing ) {
               const int cls = classify_current_cls();
               Writer& w = G.tr;
               w.s( "{\"k\":\"xc\"" );
               w.kv( "r", r );
               w.kv( "x", cls );
               put_cur( w, cur_of( in ) );
               w.kv( "d", depth_of< In >::get( in ) );
               w.s( "}\n" );
            }
            throw;
         }
      }
   };

   // with unwind()
   template< typename Rule, bool Full, int CF, template< typename... > class Base = pegtl::normal >
   struct tc_impl_uw : tc_impl< Rule, Full, true, CF, Base >
   {
      template< typename In, typename... St >
      static void unwind( const In& in, St&&... /*unused*/ )
      {
         hook_event( "uw", rid< Rule >(), CF, in );
      }
   };

   // control families: id = 1 + 2*Full + Unwind   (1 hidden/no-unwind, 2 hidden/unwind, 3 full/no-unwind, 4 full/unwind)
   template< typename Rule >
   struct tc_hid : tc_impl< Rule, false, false, 1 >
   {};
   template< typename Rule >
   struct tc_hid_uw : tc_impl_uw< Rule, false, 2 >
   {};
   template< typename Rule >
   struct tc_full : tc_impl< Rule, true, false, 3 >
   {};
   template< typename Rule >
   struct tc_full_uw : tc_impl_uw< Rule, true, 4 >
   {};

   // must_if controls (C05): the tracing control sits on top of must_if< Errors >::control, so that the failure hook is
   // logged before must_if turns it into a global failure.  5: Errors without raise_on_failure (a rule raises iff it has a
   // message), 6: Errors with a selective raise_on_failure.  Both full visibility with unwind().
   struct Errs1
   {
      template< typename Rule >
      static constexpr const char* message = mimsg_of< Rule >;
   };
   struct Errs2
   {
      template< typename Rule >
      static constexpr const char* message = mimsg_of< Rule >;
      template< typename Rule >
      static constexpr bool raise_on_failure = ( mirof_of< Rule > == 1 );
   };
   template< typename Rule >
   using mi1_base = typename pegtl::must_if< Errs1, pegtl::normal, false >::template control< Rule >;
   template< typename Rule >
   using mi2_base = typename pegtl::must_if< Errs2, pegtl::normal, false >::template control< Rule >;
   template< typename Rule >
   struct tc_mi1 : tc_impl_uw< Rule, true, 5, mi1_base >
   {};
   template< typename Rule >
   struct tc_mi2 : tc_impl_uw< Rule, true, 6, mi2_base >
   {};

   // ------------------------------------------------------------------ action families
   //
   // A rule type may carry   static constexpr long long ak = 0x....;   nibble F of ak is the action
   // kind the rule has in family F (F = 1..7; family 0 is tao::pegtl::nothing):
   //   0 none, 1 void apply, 2 void apply0, 3 bool apply (veto iff (len+vid)%3==0),
   //   4 bool apply0 (veto iff vid%3==0), 5 apply throwing foreign_error iff (len+vid)%3==0,
   //   6 apply throwing parse_error iff (len+vid)%3==0, 7 void apply0 throwing foreign_error iff vid%3==0
   // The action bodies do nothing else: all logging happens in the control's apply/apply0.

   template< typename Rule, int F, typename = void >
   inline constexpr int akind = 0;
   template< typename Rule, int F >
   inline constexpr int akind< Rule, F, std::void_t< decltype( Rule::ak ) > > = int( ( Rule::ak >> ( 4 * F ) ) & 15 );

   template< typename Rule, int K >
   struct act_body;
   template< typename Rule >
   struct act_body< Rule, 0 > : pegtl::nothing< Rule >
   {};
   template< typename Rule >
   struct act_body< Rule, 1 >
   {
      template< typename AI, typename... St >
      static void apply( const AI& /*unused*/, St&&... /*unused*/ )
      {}
   };
   template< typename Rule >
   struct act_body< Rule, 2 >
   {
      template< typename... St >
      static void apply0( St&&... /*unused*/ )
      {}
   };
   template< typename Rule >
   struct act_body< Rule, 3 >
   {
      template< typename AI, typename... St >
      static bool apply( const AI& ai, St&&... /*unused*/ )
      {
         return ( ( ai.size() + std::size_t( vid_of< Rule > ) ) % 3 ) != 0;
      }
   };
   template< typename Rule >
   struct act_body< Rule, 4 >
   {
      template< typename... St >
      static bool apply0( St&&... /*unused*/ )
      {
         return ( vid_of< Rule > % 3 ) != 0;
      }
   };
   template< typename Rule >
   struct act_body< Rule, 5 >
   {
      template< typename AI, typename... St >
      static void apply( const AI& ai, St&&... /*unused*/ )
      {
         if( ( ( ai.size() + std::size_t( vid_of< Rule > ) ) % 3 ) == 0 ) {
            throw foreign_error{ vid_of< Rule > };
         }
      }
   };
   template< typename Rule >
   struct act_body< Rule, 6 >
   {
      template< typename AI, typename... St >
      static void apply( const AI& ai, St&&... /*unused*/ )
      {
         if( ( ( ai.size() + std::size_t( vid_of< Rule > ) ) % 3 ) == 0 ) {
            throw pegtl::parse_error( "action veto", ai );
         }
      }
   };

   // actions for if_apply< R, As... > / apply< As... > / apply0< As... >: these are called by the rule itself, not through
   // the control, so they log themselves.  ia_v: void; ia_b: bool, false iff (len + N) % 3 == 0 (apply) / N % 3 == 0 (apply0)
   template< typename AI >
   void log_ia( int n, const AI& ai, int v )
   {
      Global& G = g();
      if( !G.tracing )
         return;
      const auto p = ai.position();
      Writer& w = G.tr;
      w.s( "{\"k\":\"ia\"" );
      w.kv( "n", n );
      w.kv( "b", (long long)p.byte );
      w.kv( "l", (long long)p.line );
      w.kv( "c", (long long)p.column );
      w.kv( "o", ai.begin() - G.base );
      w.kv( "eo", ai.end() - G.base );
      w.kv( "v", v );
      w.s( "}\n" );
   }
   inline void log_i0( int n, int v )
   {
      Global& G = g();
      if( !G.tracing )
         return;
      Writer& w = G.tr;
      w.s( "{\"k\":\"i0\"" );
      w.kv( "n", n );
      w.kv( "v", v );
      w.s( "}\n" );
   }
   template< int N >
   struct ia_v
   {
      template< typename AI, typename... St >
      static void apply( const AI& ai, St&&... /*unused*/ )
      {
         log_ia( N, ai, 0 );
      }
      template< typename... St >
      static void apply0( St&&... /*unused*/ )
      {
         log_i0( N, 0 );
      }
   };
   template< int N >
   struct ia_b
   {
      template< typename AI, typename... St >
      static bool apply( const AI& ai, St&&... /*unused*/ )
      {
         const bool r = ( ( ai.size() + std::size_t( N ) ) % 3 ) != 0;
         log_ia( N, ai, r ? 1 : 2 );
         return r;
      }
      template< typename... St >
      static bool apply0( St&&... /*unused*/ )
      {
         const bool r = ( N % 3 ) != 0;
         log_i0( N, r ? 1 : 2 );
         return r;
      }
   };

   template< typename Rule >
   struct act_body< Rule, 7 >
   {
      template< typename... St >
      static void apply0( St&&... /*unused*/ )
      {
         if( ( vid_of< Rule > % 3 ) == 0 ) {
            throw foreign_error{ vid_of< Rule > };
         }
      }
   };

   template< int F >
   struct afam
   {
      template< typename Rule >
      struct act : act_body< Rule, akind< Rule, F > >
      {
         static constexpr int vfam = F;
      };
   };
   template< typename Rule >
   using act1 = typename afam< 1 >::template act< Rule >;

#define VT_DEFINE_FAM( N )                              \
   template< typename Rule >                            \
   struct fam##N : act_body< Rule, akind< Rule, N > >   \
   {                                                    \
      static constexpr int vfam = N;                    \
   };
   VT_DEFINE_FAM( 1 )
   VT_DEFINE_FAM( 2 )
   VT_DEFINE_FAM( 3 )
   // family 4 is the limits family (see below)
   // family 5 is the switch family (see below)
   VT_DEFINE_FAM( 6 )
   VT_DEFINE_FAM( 7 )

   // family 8: contrib/control_action.hpp (C08): every rule's action class derives from control_action and logs the
   // action-side hooks it is given (start, success, failure, unwind); no apply / apply0
   template< typename Rule >
   struct fam8 : pegtl::control_action
   {
      static constexpr int vfam = 8;
      template< typename In, typename... St >
      static void start( const In& in, St&&... /*unused*/ )
      {
         hook_event( "cst", rid< Rule >(), 0, in );
      }
      template< typename In, typename... St >
      static void success( const In& in, St&&... /*unused*/ )
      {
         hook_event( "csu", rid< Rule >(), 0, in );
      }
      template< typename In, typename... St >
      static void failure( const In& in, St&&... /*unused*/ )
      {
         hook_event( "cfa", rid< Rule >(), 0, in );
      }
      template< typename In, typename... St >
      static void unwind( const In& in, St&&... /*unused*/ )
      {
         hook_event( "cuw", rid< Rule >(), 0, in );
      }
   };

   // instrumented state class (C13): logs construction (with the outer state it was given), success and destruction
   struct S1
   {
      long long vsid;
      template< typename In, typename... St >
      explicit S1( const In& in, St&&... st )
         : vsid( ++g().next_sid )
      {
         Global& G = g();
         if( G.tracing ) {
            Writer& w = G.tr;
            w.s( "{\"k\":\"sc\"" );
            w.kv( "sid", vsid );
            w.kv( "o", in.current() - G.base );
            w.kv( "os", first_sid( st... ) );
            w.s( "}\n" );
         }
      }
      S1()
         : vsid( ++g().next_sid )
      {
         Global& G = g();
         if( G.tracing ) {
            Writer& w = G.tr;
            w.s( "{\"k\":\"sc\"" );
            w.kv( "sid", vsid );
            w.kv( "o", -1 );
            w.kv( "os", -1 );
            w.s( "}\n" );
         }
      }
      S1( const S1& ) = delete;
      S1( S1&& ) = delete;
      void operator=( const S1& ) = delete;
      template< typename In, typename... St >
      void success( const In& in, St&&... st )
      {
         Global& G = g();
         if( G.tracing ) {
            Writer& w = G.tr;
            w.s( "{\"k\":\"ss\"" );
            w.kv( "sid", vsid );
            put_cur( w, cur_of( in ) );
            w.kv( "os", first_sid( st... ) );
            w.s( "}\n" );
         }
      }
      ~S1()
      {
         Global& G = g();
         if( G.tracing ) {
            Writer& w = G.tr;
            w.s( "{\"k\":\"sd\"" );
            w.kv( "sid", vsid );
            w.s( "}\n" );
         }
      }
   };

   // like S1, but only default-constructible: exercises the default-construction branch of state<> / change_state<>
   struct S2
   {
      long long vsid;
      S2()
         : vsid( ++g().next_sid )
      {
         Global& G = g();
         if( G.tracing ) {
            Writer& w = G.tr;
            w.s( "{\"k\":\"sc\"" );
            w.kv( "sid", vsid );
            w.kv( "o", -1 );
            w.kv( "os", -1 );
            w.s( "}\n" );
         }
      }
      S2( const S2& ) = delete;
      S2( S2&& ) = delete;
      void operator=( const S2& ) = delete;
      template< typename In, typename... St >
      void success( const In& in, St&&... st )
      {
         Global& G = g();
         if( G.tracing ) {
            Writer& w = G.tr;
            w.s( "{\"k\":\"ss\"" );
            w.kv( "sid", vsid );
            put_cur( w, cur_of( in ) );
            w.kv( "os", first_sid( st... ) );
            w.s( "}\n" );
         }
      }
      ~S2()
      {
         Global& G = g();
         if( G.tracing ) {
            Writer& w = G.tr;
            w.s( "{\"k\":\"sd\"" );
            w.kv( "sid", vsid );
            w.s( "}\n" );
         }
      }
   };

   // family 5: state and action switching (C13).  A rule type carries  static constexpr int sw = k
   //   1 change_state< S1 >   2 change_states< S1 >   3 change_action< fam1 >   4 change_action_and_state< fam1, S1 >
   //   5 change_action_and_states< fam1, S1 >   6 change_control< tc_hid_uw >   7 enable_action   8 disable_action
   //   9 change_state< S2 >   10 change_action_and_state< fam1, S2 >      (S2: default-constructible only)
   // rules without sw have the action given by nibble 5 of ak
   template< typename Rule >
   struct tc_hid_uw;
   template< typename Rule, int SW >
   struct sw_body : act_body< Rule, akind< Rule, 5 > >
   {};
   template< typename Rule >
   struct sw_body< Rule, 1 > : pegtl::change_state< S1 >
   {};
   template< typename Rule >
   struct sw_body< Rule, 2 > : pegtl::change_states< S1 >
   {
      template< typename In, typename... St >
      static void success( const In& in, S1& s, St&&... st )
      {
         s.success( in, st... );
      }
   };
   template< typename Rule >
   struct sw_body< Rule, 3 > : pegtl::change_action< fam1 >
   {};
   template< typename Rule >
   struct sw_body< Rule, 4 > : pegtl::change_action_and_state< fam1, S1 >
   {};
   template< typename Rule >
   struct sw_body< Rule, 5 > : pegtl::change_action_and_states< fam1, S1 >
   {
      template< typename In, typename... St >
      static void success( const In& in, S1& s, St&&... st )
      {
         s.success( in, st... );
      }
   };
   template< typename Rule >
   struct sw_body< Rule, 6 > : pegtl::change_control< tc_hid_uw >
   {};
   template< typename Rule >
   struct sw_body< Rule, 7 > : pegtl::enable_action
   {};
   template< typename Rule >
   struct sw_body< Rule, 8 > : pegtl::disable_action
   {};
   template< typename Rule >
   struct sw_body< Rule, 9 > : pegtl::change_state< S2 >
   {};
   template< typename Rule >
   struct sw_body< Rule, 10 > : pegtl::change_action_and_state< fam1, S2 >
   {};
   template< typename Rule >
   struct fam5 : sw_body< Rule, sw_of< Rule > >
   {
      static constexpr int vfam = 5;
   };

   // family 4: limits (C18).  A rule type carries  static constexpr int lim = kind * 1000 + N
   template< typename Rule, int Kind, std::size_t N >
   struct lim_body : pegtl::nothing< Rule >
   {};
   template< typename Rule, std::size_t N >
   struct lim_body< Rule, 1, N > : pegtl::limit_depth< N >
   {};
   template< typename Rule, std::size_t N >
   struct lim_body< Rule, 2, N > : pegtl::limit_bytes< N >
   {};
   template< typename Rule, std::size_t N >
   struct lim_body< Rule, 3, N > : pegtl::check_bytes< N >
   {};
   template< typename Rule >
   struct fam4 : lim_body< Rule, lim_of< Rule > / 1000, std::size_t( lim_of< Rule > % 1000 ) >
   {
      static constexpr int vfam = 4;
   };

   // ------------------------------------------------------------------ case driver

   struct CaseCfg
   {
      int root = 0;
      int A = 1, M = 1, af = 0, cf = 1;
      int trk = 0;  // 0 eager 1 lazy
      int eol = 3;  // 0 lf 1 cr 2 crlf 3 lf_crlf 4 cr_crlf
      long long ib = 0, il = 1, ic = 1;
      int cls = 0;  // input class: 0 memory_input, 1 input_with_depth, 2 buffer_input with a scripted reader,
                    // 3 string_input, 4 read_input (stdio), 5 mmap_input / file_input, 6 argv_input, 7 istream_input, 8 cstream_input,
                    // 9 buffer_input< cstring_reader >
      int extra = 0;
      long long bmax = 0;    // buffer_input: the maximum passed to the constructor
      long long bchunk = 0;  // buffer_input: Chunk
      long long sched = 0;   // buffer_input: reader schedule id
   };

   inline void begin_case( const CaseCfg& c, const char* data, std::size_t n )
   {
      Global& G = g();
      G.base = data;
      G.base_byte = c.ib;
      G.events = 0;
      G.depth = 0;
      G.by_bytes = false;
      G.acc = 0;
      G.oob = 0;
      G.next_sid = 0;
      G.in_case = true;
      ++G.case_id;
      Writer& w = G.tr;
      w.maybe_rotate();
      w.s( "{\"k\":\"case\"" );
      w.kv( "id", G.case_id );
      w.kv( "g", c.root );
      w.bytes( "w", data, n );
      w.kv( "A", c.A );
      w.kv( "M", c.M );
      w.kv( "af", c.af );
      w.kv( "cf", c.cf );
      w.kv( "trk", c.trk );
      w.kv( "eol", c.eol );
      w.kv( "ib", c.ib );
      w.kv( "il", c.il );
      w.kv( "ic", c.ic );
      w.kv( "cls", c.cls );
      w.kv( "xt", c.extra );
      w.kv( "bmax", c.bmax );
      w.kv( "bchunk", c.bchunk );
      w.kv( "sched", c.sched );
      w.s( "}\n" );
   }

   template< typename In >
   void end_case_ok( bool res, const In& in )
   {
      Global& G = g();
      Writer& w = G.tr;
      w.s( "{\"k\":\"end\"" );
      w.kv( "v", res ? 1 : 0 );
      put_cur( w, cur_of( in ) );
      w.kv( "d", depth_of< In >::get( in ) );
      w.kv( "x", 0 );
      w.kv( "nested", 0 );
      w.kv( "pb", -1 );
      w.kv( "pl", -1 );
      w.kv( "pc", -1 );
      w.str( "src", "" );
      w.str( "msg", "" );
      w.str( "what", "" );
      w.kv( "acc", G.acc );
      w.s( "}\n" );
      w.maybe_flush();
      G.in_case = false;
   }

   template< typename In >
   void end_case_exc( const XInfo& x, const In& in )
   {
      Global& G = g();
      G.events = -( 1LL << 40 );
      if( x.cls == X_FUEL ) {
         ++G.fuel_cases;
      }
      Writer& w = G.tr;
      w.s( "{\"k\":\"end\"" );
      w.kv( "v", 2 );
      put_cur( w, cur_of( in ) );
      w.kv( "d", depth_of< In >::get( in ) );
      w.kv( "x", x.cls );
      w.kv( "nested", x.nested );
      w.kv( "pb", x.pb );
      w.kv( "pl", x.pl );
      w.kv( "pc", x.pc );
      w.str( "src", x.src );
      w.str( "msg", x.msg );
      w.str( "what", x.what );
      w.kv( "acc", G.acc );
      w.s( "}\n" );
      w.maybe_flush();
      G.in_case = false;
   }

   struct plain_input
   {
      template< typename In >
      using type = In;
   };
   struct depth_input
   {
      template< typename In >
      using type = pegtl::input_with_depth< In >;
   };

   // run one case on a memory_input over an exact-size heap copy of the data
   template< typename Rule, template< typename... > class Action, template< typename... > class Control, pegtl::apply_mode A, pegtl::rewind_mode M, pegtl::tracking_mode T, typename Eol, typename Wrap = plain_input >
   void run_memory_case( CaseCfg c, const std::string& data )
   {
      describe< Rule >();
      c.root = rid< Rule >();
      c.A = ( A == pegtl::apply_mode::action ) ? 1 : 0;
      c.M = ( M == pegtl::rewind_mode::required ) ? 1 : 0;
      c.af = afam_of< Action >;
      c.cf = Control< Rule >::vcfam;
      c.trk = ( T == pegtl::tracking_mode::eager ) ? 0 : 1;
      // exact-size heap block: no terminator, ASan redzone right behind the last byte
      char* blk = static_cast< char* >( std::malloc( data.size() ? data.size() : 1 ) );
      std::memcpy( blk, data.data(), data.size() );
      begin_case( c, blk, data.size() );
      {
         typename Wrap::template type< pegtl::memory_input< T, Eol, std::string > > in( blk, blk + data.size(), "src", std::size_t( c.ib ), std::size_t( c.il ), std::size_t( c.ic ) );
         try {
            const bool res = pegtl::parse< Rule, Action, Control, A, M >( in );
            end_case_ok( res, in );
         }
         catch( ... ) {
            const XInfo x = classify_current();
            end_case_exc( x, in );
         }
      }
      std::free( blk );
   }

   // ------------------------------------------------------------------ other input classes (C07)

   // a reader that delivers the stream in the pieces a schedule prescribes (cyclically), never more than asked for,
   // zero only at the end of the stream; every call is logged
   struct script_reader
   {
      const char* data;
      std::size_t n;
      std::size_t pos = 0;
      std::vector< int > sched;   // empty: as much as requested
      std::size_t idx = 0;
      script_reader( const char* d, std::size_t len, std::vector< int > s )
         : data( d ), n( len ), sched( std::move( s ) )
      {}
      std::size_t operator()( char* buffer, const std::size_t length )
      {
         std::size_t k = n - pos;
         if( k > length )
            k = length;
         if( !sched.empty() && k > 0 ) {
            const std::size_t want = std::size_t( sched[ idx++ % sched.size() ] );
            if( k > want )
               k = want;
         }
         std::memcpy( buffer, data + pos, k );
         pos += k;
         Global& G = g();
         if( G.tracing ) {
            Writer& w = G.tr;
            w.s( "{\"k\":\"rd\"" );
            w.kv( "req", (long long)length );
            w.kv( "ret", (long long)k );
            w.kv( "left", (long long)( n - pos ) );
            w.s( "}\n" );
         }
         return k;
      }
   };

   template< typename Rule, template< typename... > class Action, template< typename... > class Control, pegtl::apply_mode A, pegtl::rewind_mode M, typename Eol, std::size_t Chunk >
   void run_buffer_case( CaseCfg c, const std::string& data, std::size_t maximum, const std::vector< int >& sched, int sched_id )
   {
      describe< Rule >();
      c.root = rid< Rule >();
      c.A = ( A == pegtl::apply_mode::action ) ? 1 : 0;
      c.M = ( M == pegtl::rewind_mode::required ) ? 1 : 0;
      c.af = afam_of< Action >;
      c.cf = Control< Rule >::vcfam;
      c.trk = 0;
      c.cls = 2;
      c.bmax = (long long)maximum;
      c.bchunk = (long long)Chunk;
      c.sched = sched_id;
      char* blk = static_cast< char* >( std::malloc( data.size() ? data.size() : 1 ) );
      std::memcpy( blk, data.data(), data.size() );
      begin_case( c, blk, data.size() );
      g().by_bytes = true;
      {
         pegtl::buffer_input< script_reader, Eol, std::string, Chunk > in( "src", maximum, blk, data.size(), sched );
         try {
            const bool res = pegtl::parse< Rule, Action, Control, A, M >( in );
            end_case_ok( res, in );
         }
         catch( ... ) {
            const XInfo x = classify_current();
            end_case_exc( x, in );
         }
      }
      std::free( blk );
   }

   // run one case on an arbitrary memory-like input that owns or maps its data
   template< typename Rule, template< typename... > class Action, template< typename... > class Control, pegtl::apply_mode A, pegtl::rewind_mode M, typename In >
   void run_input_case( CaseCfg c, int cls, const std::string& data, In& in )
   {
      describe< Rule >();
      c.root = rid< Rule >();
      c.A = ( A == pegtl::apply_mode::action ) ? 1 : 0;
      c.M = ( M == pegtl::rewind_mode::required ) ? 1 : 0;
      c.af = afam_of< Action >;
      c.cf = Control< Rule >::vcfam;
      c.trk = ( In::tracking_mode_v == pegtl::tracking_mode::eager ) ? 0 : 1;
      c.cls = cls;
      begin_case( c, data.data(), data.size() );
      if constexpr( !is_buffer_like< In > ) {
         g().base = in.begin();   // offsets are measured in the input's own copy / mapping of the data
      }
      else {
         g().by_bytes = true;
      }
      try {
         const bool res = pegtl::parse< Rule, Action, Control, A, M >( in );
         end_case_ok( res, in );
      }
      catch( ... ) {
         const XInfo x = classify_current();
         end_case_exc( x, in );
      }
   }

   // coverage (C08): pegtl::coverage< Rule, Action, Control >() with a tracing control underneath state_control<>; what it
   // reports is logged and compared by the contract with the invocations it observed in the same run
   inline void log_cov( const pegtl::coverage_result& result, int xcls )
   {
      Global& G = g();
      Writer& w = G.tr;
      auto id_of = [ & ]( std::string_view name ) {
         const auto it = dn2id().find( std::string( name ) );
         return ( it == dn2id().end() ) ? 0 : it->second;
      };
      w.s( "{\"k\":\"cov\"" );
      w.kv( "x", xcls );
      w.s( ",\"rules\":[" );
      bool first = true;
      for( const auto& [ name, e ] : result ) {
         if( !first )
            w.s( "," );
         first = false;
         w.s( "[" );
         w.i( id_of( name ) );
         for( const std::size_t v : { e.start, e.success, e.failure, e.unwind, e.raise } ) {
            w.s( "," );
            w.i( (long long)v );
         }
         w.s( "]" );
      }
      w.s( "],\"br\":[" );
      first = true;
      for( const auto& [ name, e ] : result ) {
         for( const auto& [ bname, b ] : e.branches ) {
            if( b.start == 0 && b.success == 0 && b.failure == 0 && b.unwind == 0 )
               continue;   // branches never taken are not listed (the contract knows them as zero)
            if( !first )
               w.s( "," );
            first = false;
            w.s( "[" );
            w.i( id_of( name ) );
            w.s( "," );
            w.i( id_of( bname ) );
            for( const std::size_t v : { b.start, b.success, b.failure, b.unwind } ) {
               w.s( "," );
               w.i( (long long)v );
            }
            w.s( "]" );
         }
      }
      w.s( "]}\n" );
   }

   template< typename Rule, template< typename... > class Action, template< typename... > class Control, pegtl::tracking_mode T, typename Eol >
   void run_cov_case( CaseCfg c, const std::string& data )
   {
      describe< Rule >();
      c.root = rid< Rule >();
      c.A = 1;   // coverage() parses with the defaults: apply_mode::action, rewind_mode::optional
      c.M = 0;
      c.af = afam_of< Action >;
      c.cf = Control< Rule >::vcfam;
      c.trk = ( T == pegtl::tracking_mode::eager ) ? 0 : 1;
      c.extra = 4;   // coverage run
      char* blk = static_cast< char* >( std::malloc( data.size() ? data.size() : 1 ) );
      std::memcpy( blk, data.data(), data.size() );
      begin_case( c, blk, data.size() );
      {
         pegtl::memory_input< T, Eol, std::string > in( blk, blk + data.size(), "src" );
         pegtl::coverage_result result;
         try {
            const bool res = pegtl::coverage< Rule, Action, Control >( in, result );
            log_cov( result, 0 );
            end_case_ok( res, in );
         }
         catch( ... ) {
            const XInfo x = classify_current();
            log_cov( result, x.cls );
            end_case_exc( x, in );
         }
      }
      std::free( blk );
   }

   // tracer (C08, C19): pegtl's tracer state on top of state_control< tracing control >; what it prints is discarded, the
   // hook protocol of the base control underneath it is what the contract checks (and that printing positions and source
   // lines with line_at() neither throws nor disturbs the run)
   template< typename Rule, template< typename... > class Action, template< typename... > class Control, bool Hide, pegtl::tracking_mode T, typename Eol >
   void run_trace_case( CaseCfg c, const std::string& data )
   {
      describe< Rule >();
      c.root = rid< Rule >();
      c.A = 1;
      c.M = 0;
      c.af = afam_of< Action >;
      c.cf = Control< Rule >::vcfam;
      c.trk = ( T == pegtl::tracking_mode::eager ) ? 0 : 1;
      c.extra = 5;   // tracer run
      char* blk = static_cast< char* >( std::malloc( data.size() ? data.size() : 1 ) );
      std::memcpy( blk, data.data(), data.size() );
      begin_case( c, blk, data.size() );
      {
         pegtl::memory_input< T, Eol, std::string > in( blk, blk + data.size(), "src" );
         std::ostringstream sink;
         std::streambuf* old = std::cerr.rdbuf( sink.rdbuf() );
         try {
            pegtl::tracer< pegtl::tracer_traits< Hide, false, true > > tr( in );
            const bool res = tr.template parse< Rule, Action, Control >( in );
            std::cerr.rdbuf( old );
            end_case_ok( res, in );
         }
         catch( ... ) {
            std::cerr.rdbuf( old );
            const XInfo x = classify_current();
            end_case_exc( x, in );
         }
      }
      std::free( blk );
   }

   // the input object for a case could not even be constructed (an exception from reading / mapping the file, ...): the case
   // is logged as a run that ended with that exception before anything was consumed, so that it is compared like any other
   template< typename Rule, template< typename... > class Action, template< typename... > class Control, pegtl::apply_mode A, pegtl::rewind_mode M >
   void input_ctor_failed( CaseCfg c, int cls, int trk, const std::string& data )
   {
      const XInfo x = classify_current();
      describe< Rule >();
      c.root = rid< Rule >();
      c.A = ( A == pegtl::apply_mode::action ) ? 1 : 0;
      c.M = ( M == pegtl::rewind_mode::required ) ? 1 : 0;
      c.af = afam_of< Action >;
      c.cf = Control< Rule >::vcfam;
      c.trk = trk;
      c.cls = cls;
      begin_case( c, data.data(), data.size() );
      Global& G = g();
      G.events = -( 1LL << 40 );
      Writer& w = G.tr;
      w.s( "{\"k\":\"end\"" );
      w.kv( "v", 2 );
      put_cur( w, Cur{ c.ib, c.il, c.ic, 0, (long long)data.size() } );
      w.kv( "d", -1 );
      w.kv( "x", x.cls );
      w.kv( "nested", x.nested );
      w.kv( "pb", x.pb );
      w.kv( "pl", x.pl );
      w.kv( "pc", x.pc );
      w.str( "src", x.src );
      w.str( "msg", x.msg );
      w.str( "what", x.what );
      w.kv( "acc", G.acc );
      w.s( "}\n" );
      w.maybe_flush();
      G.in_case = false;
   }

   // run one case on a slice: the logical end lies inside a larger buffer whose remaining bytes would extend a match
   template< typename Rule, template< typename... > class Action, template< typename... > class Control, pegtl::apply_mode A, pegtl::rewind_mode M, pegtl::tracking_mode T, typename Eol >
   void run_slice_case( CaseCfg c, const std::string& data, const std::string& filler )
   {
      describe< Rule >();
      c.root = rid< Rule >();
      c.A = ( A == pegtl::apply_mode::action ) ? 1 : 0;
      c.M = ( M == pegtl::rewind_mode::required ) ? 1 : 0;
      c.af = afam_of< Action >;
      c.cf = Control< Rule >::vcfam;
      c.trk = ( T == pegtl::tracking_mode::eager ) ? 0 : 1;
      c.extra = 3;   // slice
      const std::string all = data + filler;
      char* blk = static_cast< char* >( std::malloc( all.size() ? all.size() : 1 ) );
      std::memcpy( blk, all.data(), all.size() );
      begin_case( c, blk, data.size() );
      {
         pegtl::memory_input< T, Eol, std::string > in( blk, blk + data.size(), "src" );
         try {
            const bool res = pegtl::parse< Rule, Action, Control, A, M >( in );
            end_case_ok( res, in );
         }
         catch( ... ) {
            const XInfo x = classify_current();
            end_case_exc( x, in );
         }
      }
      std::free( blk );
   }

   // enumerate all strings of length 0..maxlen over alphabet
   template< typename F >
   void for_all_strings( const std::string& alphabet, int maxlen, F&& f )
   {
      for( const std::string& x : g().inputs ) {
         f( x );
      }
      if( maxlen < 0 ) {
         return;
      }
      std::string s;
      f( s );
      for( int len = 1; len <= maxlen; ++len ) {
         std::vector< std::size_t > idx( std::size_t( len ), 0 );
         s.assign( std::size_t( len ), alphabet[ 0 ] );
         while( true ) {
            for( int j = 0; j < len; ++j )
               s[ std::size_t( j ) ] = alphabet[ idx[ std::size_t( j ) ] ];
            f( s );
            int j = len - 1;
            while( j >= 0 && ++idx[ std::size_t( j ) ] == alphabet.size() ) {
               idx[ std::size_t( j ) ] = 0;
               --j;
            }
            if( j < 0 )
               break;
         }
      }
   }

   // ------------------------------------------------------------------ parse tree (C12)
   //
   // selector by trait: a rule type may carry  static constexpr int sel = k
   //   0 not selected, 1 store_content, 2 remove_content, 3 fold_one, 4 discard_empty
   template< int K >
   struct sel_kind : std::false_type
   {};
   template<>
   struct sel_kind< 1 > : pegtl::parse_tree::store_content
   {};
   template<>
   struct sel_kind< 2 > : pegtl::parse_tree::remove_content
   {};
   template<>
   struct sel_kind< 3 > : pegtl::parse_tree::fold_one
   {};
   template<>
   struct sel_kind< 4 > : pegtl::parse_tree::discard_empty
   {};
   template< typename Rule >
   struct vsel : sel_kind< sel_of< Rule > >
   {};
   template< typename Rule >
   using vsel_all = std::true_type;

   inline void dump_tree( Writer& w, const pegtl::parse_tree::node& n, int depth, bool& first )
   {
      for( const auto& c : n.children ) {
         if( !first )
            w.s( "," );
         first = false;
         const auto it = dn2id().find( std::string( c->type ) );
         w.s( "[" );
         w.i( it == dn2id().end() ? 0 : it->second );
         w.s( "," );
         w.i( c->m_begin.data - g().base );
         w.s( "," );
         w.i( c->has_content() ? ( c->m_end.data - g().base ) : -1 );
         w.s( "," );
         w.i( c->has_content() ? 1 : 0 );
         w.s( "," );
         w.i( depth );
         w.s( "]" );
         dump_tree( w, *c, depth + 1, first );
      }
   }

   // the same data once more through parse_tree::parse (plain normal<> control): logs the resulting tree
   template< typename Rule, template< typename... > class Selector, template< typename... > class Action >
   void run_tree_case( const std::string& data )
   {
      Global& G = g();
      char* blk = static_cast< char* >( std::malloc( data.size() ? data.size() : 1 ) );
      std::memcpy( blk, data.data(), data.size() );
      G.base = blk;
      const bool was = G.tracing;
      G.tracing = false;
      int x = 0;
      std::unique_ptr< pegtl::parse_tree::node > root;
      {
         pegtl::memory_input< pegtl::tracking_mode::eager, pegtl::eol::lf_crlf, std::string > in( blk, blk + data.size(), "src" );
         try {
            root = pegtl::parse_tree::parse< Rule, Selector, Action >( in );
         }
         catch( ... ) {
            x = classify_current_cls();
         }
      }
      G.tracing = was;
      Writer& w = G.tr;
      w.s( "{\"k\":\"tree\"" );
      w.kv( "null", root ? 0 : 1 );
      w.kv( "x", x );
      w.s( ",\"nodes\":[" );
      if( root ) {
         bool first = true;
         dump_tree( w, *root, 0, first );
      }
      w.s( "]}\n" );
      w.maybe_flush();
      root.reset();
      std::free( blk );
   }

   // ------------------------------------------------------------------ process-level safety net

   inline void on_terminate()
   {
      Global& G = g();
      G.tr.s( "{\"k\":\"crash\",\"why\":1}\n" );
      G.tr.flush();
      G.tb.flush();
      _exit( 0 );
   }
   inline void on_signal( int sig )
   {
      Global& G = g();
      G.tr.s( "{\"k\":\"crash\",\"why\":" );
      G.tr.i( 100 + sig );
      G.tr.s( "}\n" );
      G.tr.flush();
      G.tb.flush();
      _exit( 0 );
   }

   inline void init( const char* trace_path, const char* table_path )
   {
      Global& G = g();
      G.tr.open_rotating( trace_path );
      G.tb.open( table_path );
      std::set_terminate( on_terminate );
      std::signal( SIGSEGV, on_signal );
      std::signal( SIGBUS, on_signal );
      std::signal( SIGABRT, on_signal );
   }
   inline void finish()
   {
      Global& G = g();
      G.tr.s( "{\"k\":\"fin\"}\n" );   // the run reached its regular end (a missing marker means the harness was cut short)
      G.tr.close();
      G.tb.close();
   }

}  // namespace vt
