#!/usr/bin/env python3
"""grammars.py -- grammar ASTs for the generated corpus and their rendering as PEGTL C++ types.

An expression is a tuple (op, args...) where args are expressions, ints or strings:
  ('seq', e1, e2, ...)  ('one', 'a', 'b')  ('rep_min_max', 1, 2, e)  ('ref', k)  ...
A grammar is a list of named rules [(expr, attrs)], rule k may refer to any rule by ('ref', j).
"""
import itertools
import random

ATOM_OPS = {"any", "one", "not_one", "range", "not_range", "ranges", "string", "istring", "eof", "success", "failure",
            "eol", "eolf", "bof", "bol", "bytes", "require", "everything", "discard", "alnum", "alpha", "blank",
            "digit", "ellipsis", "identifier", "identifier_first", "identifier_other", "keyword", "lower", "nul",
            "odigit", "print", "seven", "shebang", "space", "upper", "xdigit", "two", "three", "forty_two",
            "raise_message", "u8any", "u8one", "u8range", "u8not_one", "u8string", "u8bom", "u8ranges", "u8not_range"}
NUM1 = {"rep", "rep_min", "rep_max", "rep_opt"}


def cchar(c):
    if isinstance(c, int):
        return str(c)
    if c == "\n":
        return "'\\n'"
    if c == "\r":
        return "'\\r'"
    if c == "\t":
        return "'\\t'"
    if c == "'":
        return "'\\''"
    if c == "\\":
        return "'\\\\'"
    return "'%s'" % c


def render(e, names):
    if e[0] in ("try_catch_type_return_false", "try_catch_type_raise_nested"):
        return "%s< %s, %s >" % (e[0], e[1], ", ".join(render(x, names) for x in e[2:]))
    """C++ type expression for e; names[k] is the C++ name of rule k"""
    op = e[0]
    a = e[1:]
    if op == "ref":
        return names[a[0]]
    if op in ("any", "eof", "success", "failure", "eol", "eolf", "bof", "bol", "everything", "discard", "alnum",
              "alpha", "blank", "digit", "ellipsis", "identifier", "identifier_first", "identifier_other", "lower",
              "nul", "odigit", "print", "seven", "shebang", "space", "upper", "xdigit"):
        return op
    if op in ("one", "not_one", "range", "not_range", "ranges", "string", "istring", "keyword", "two", "three",
              "forty_two", "raise_message"):
        return "%s< %s >" % (op, ", ".join(cchar(c) for c in a))
    if op in ("bytes", "require"):
        return "%s< %d >" % (op, a[0])
    if op.startswith("u8"):
        if op in ("u8any", "u8bom"):
            return "utf8::" + op[2:]
        return "utf8::%s< %s >" % (op[2:], ", ".join("0x%x" % c for c in a))
    if op in NUM1:
        return "%s< %d, %s >" % (op, a[0], ", ".join(render(x, names) for x in a[1:]))
    if op == "rep_min_max":
        return "rep_min_max< %d, %d, %s >" % (a[0], a[1], ", ".join(render(x, names) for x in a[2:]))
    if op == "raise":
        return "tao::pegtl::raise< %s >" % render(a[0], names)   # ::raise(int) from <csignal> is also in scope
    if op == "action":
        return "action< %s, %s >" % ("vt::fam%d" % a[0] if a[0] else "nothing", ", ".join(render(x, names) for x in a[1:]))
    if op == "state":
        return "state< vt::S1, %s >" % ", ".join(render(x, names) for x in a)
    if op == "state2":
        return "state< vt::S2, %s >" % ", ".join(render(x, names) for x in a)
    if op == "control":
        return "control< vt::%s, %s >" % (["", "tc_hid", "tc_hid_uw", "tc_full", "tc_full_uw"][a[0]], ", ".join(render(x, names) for x in a[1:]))
    if op in ("if_apply", "apply", "apply0"):
        return "%s< %s >" % (op, ", ".join(x if isinstance(x, str) else render(x, names) for x in a))
    if op in ("try_catch_type_return_false", "try_catch_type_raise_nested"):
        return "%s< %s, %s >" % (op, a[0], ", ".join(render(x, names) for x in a[1:]))
    if op == "raw":
        return a[0]
    return "%s< %s >" % (op, ", ".join(render(x, names) for x in a))


# ---------------------------------------------------------------- static analysis used only to keep the corpus terminating

def nullable(e, rules, seen=()):
    """may e succeed without consuming?  (over-approximation)"""
    op = e[0]
    a = e[1:]
    if op == "ref":
        if a[0] in seen:
            return False
        return nullable(rules[a[0]][0], rules, seen + (a[0],))
    if op in ("any", "one", "not_one", "range", "not_range", "ranges", "alnum", "alpha", "blank", "digit", "ellipsis",
              "identifier", "identifier_first", "identifier_other", "keyword", "lower", "nul", "odigit", "print",
              "seven", "shebang", "space", "upper", "xdigit", "two", "three", "forty_two", "eol", "u8any", "u8one",
              "u8range", "u8not_one", "u8bom", "u8ranges", "u8not_range"):
        return False
    if op in ("string", "istring", "u8string"):
        return len(a) == 0
    if op == "bytes":
        return a[0] == 0
    if op in ("failure", "raise", "raise_message"):
        return False
    if op in ("eof", "success", "eolf", "bof", "bol", "require", "everything", "discard", "at", "not_at", "opt", "star",
              "star_partial", "star_strict", "partial", "strict", "rep_opt", "rep_max", "opt_must", "star_must", "pad_opt",
              "until", "apply", "apply0"):
        if op == "until":
            return nullable(a[0], rules, seen)
        return True
    subs = [x for x in a if isinstance(x, tuple)]
    if op in ("seq", "must", "enable", "disable", "state", "state2", "action", "control", "try_catch_return_false",
              "try_catch_raise_nested", "try_catch_any_return_false", "try_catch_any_raise_nested",
              "try_catch_std_return_false", "try_catch_std_raise_nested", "try_catch_type_return_false",
              "try_catch_type_raise_nested", "if_must", "plus", "rematch", "minus", "if_apply"):
        if op in ("rematch", "minus", "if_apply"):
            return nullable(subs[0], rules, seen)
        return all(nullable(x, rules, seen) for x in subs)
    if op == "sor":
        return any(nullable(x, rules, seen) for x in subs)
    if op in ("rep", "rep_min"):
        return a[0] == 0 or all(nullable(x, rules, seen) for x in subs)
    if op == "rep_min_max":
        return a[0] == 0 or all(nullable(x, rules, seen) for x in subs)
    if op in ("if_then_else", "if_must_else"):
        return (nullable(subs[0], rules, seen) and nullable(subs[1], rules, seen)) or nullable(subs[2], rules, seen)
    if op in ("list", "list_must", "list_tail"):
        return nullable(subs[0], rules, seen)
    if op == "pad":
        return nullable(subs[0], rules, seen)
    return True


def expand(e):
    """documented expansion into core operators (mirrors Desugar in spec/PegDen.tla); used only to
    keep generated grammars terminating"""
    op = e[0]
    a = e[1:]
    subs = [expand(x) if isinstance(x, tuple) else x for x in a]
    S = lambda *xs: ("seq",) + tuple(xs)
    if op in ("plus",):
        return S(S(*subs), ("star",) + tuple(subs))
    if op == "rep_min":
        return S(("rep", subs[0]) + tuple(subs[1:]), ("star",) + tuple(subs[1:]))
    if op == "rep_max":
        return expand(("rep_min_max", 0, a[0]) + tuple(a[1:]))
    if op == "rep_min_max":
        return S(("rep", subs[0]) + tuple(subs[2:]), ("rep_opt", subs[1] - subs[0]) + tuple(subs[2:]), ("not_at",) + tuple(subs[2:]))
    if op in ("if_must", "opt_must"):
        r = S(subs[0], ("must",) + tuple(subs[1:]))
        return ("opt", r) if op == "opt_must" else r
    if op == "star_must":
        return ("star", S(subs[0], ("must",) + tuple(subs[1:])))
    if op == "pad":
        return S(("star", subs[1]), subs[0], ("star", subs[2] if len(subs) == 3 else subs[1]))
    if op == "pad_opt":
        return S(("star", subs[1]), ("opt", subs[0], ("star", subs[1])))
    if op in ("list", "list_must", "list_tail"):
        r, sp = a[0], a[1]
        if len(a) == 3:
            sp = ("pad", a[1], a[2])
        if op == "list":
            return expand(S(r, ("star", sp, r)))
        if op == "list_must":
            return expand(S(r, ("star", ("if_must", sp, r))))
        if len(a) == 3:
            return expand(S(("list",) + tuple(a), ("opt", ("star", a[2]), a[1])))
        return expand(S(("list",) + tuple(a), ("opt", a[1])))
    if op == "until":
        if len(subs) == 1:
            return S(("star", ("not_at", subs[0]), ("any",)), subs[0])
        return S(("star", ("not_at", subs[0])) + tuple(subs[1:]), subs[0])
    if op == "star_partial":
        return ("star",) + tuple(subs)          # same looping behaviour: loops iff the whole body is nullable
    if op == "star_strict":
        return ("star",) + tuple(subs)
    if op == "minus":
        return ("rematch", subs[0], ("not_at", subs[1], ("eof",)))
    if op == "if_then":
        return ("if_then_else", subs[0], S(*subs[1:]), ("failure",))
    return (op,) + tuple(subs)


def loops(e, rules):
    return loops0(expand(e), [(expand(r[0]), r[1]) for r in rules])


def loops0(e, rules):
    """does e contain a repetition whose body may match the empty string?"""
    op = e[0]
    a = e[1:]
    subs = [x for x in a if isinstance(x, tuple)]
    if op in ("star", "plus", "star_partial", "rep_min", "star_must"):
        if all(nullable(x, rules) for x in subs):
            return True
    if op == "star_strict":
        if all(nullable(x, rules) for x in subs):
            return True
    if op == "until":
        if len(subs) > 1 and all(nullable(x, rules) for x in subs[1:]):
            return True
    if op in ("list", "list_must", "list_tail"):
        if all(nullable(x, rules) for x in subs):
            return True
    if op in ("pad", "pad_opt"):
        if any(nullable(x, rules) for x in subs[1:]):
            return True
    return any(loops0(x, rules) for x in subs)


def first_refs(e, rules):
    """rules that e may invoke at its own start position (for left-recursion avoidance)"""
    op = e[0]
    a = e[1:]
    subs = [x for x in a if isinstance(x, tuple)]
    if op == "ref":
        return {a[0]}
    out = set()
    if op in ("sor", "if_then_else", "if_must_else"):
        for x in subs:
            out |= first_refs(x, rules)
        return out
    # sequence-like: sub-rules until the first non-nullable one; be conservative for everything else
    for x in subs:
        out |= first_refs(x, rules)
        if op in ("seq", "must", "if_must", "list", "pad") and not nullable(x, rules):
            break
    return out


def left_recursive(rules):
    n = len(rules)
    reach = {k: first_refs(rules[k][0], rules) for k in range(n)}
    for k in range(n):
        seen, todo = set(), list(reach[k])
        while todo:
            j = todo.pop()
            if j == k:
                return True
            if j not in seen:
                seen.add(j)
                todo.extend(reach[j])
    return False


def well_formed(rules):
    return not left_recursive(rules) and not any(loops(r[0], rules) for r in rules)


# ---------------------------------------------------------------- enumerations and random generation

def exprs_depth(atoms, unary, binary, depth):
    """all expressions of depth <= depth"""
    level = list(atoms)
    allx = list(level)
    for _ in range(depth):
        nxt = []
        for u in unary:
            for x in allx:
                nxt.append((u, x))
        for b in binary:
            for x, y in itertools.product(allx, repeat=2):
                nxt.append((b, x, y))
        allx = list(dict.fromkeys(list(atoms) + nxt))
    return allx


def rand_expr(rng, atoms, ops, depth, nrefs=0, p_ref=0.25):
    """random expression; ops is a list of (name, arity-spec) with arity-spec in
       'u' unary, 'b' binary, 'v' 1..3 kids, ('n',lo,hi,'u') numeric first arg"""
    if depth == 0 or rng.random() < 0.15:
        if nrefs and rng.random() < p_ref:
            return ("ref", rng.randrange(nrefs))
        return rng.choice(atoms)
    name, spec = rng.choice(ops)
    sub = lambda: rand_expr(rng, atoms, ops, depth - 1, nrefs, p_ref)
    if spec == "u":
        return (name, sub())
    if spec == "b":
        return (name, sub(), sub())
    if spec == "t":
        return (name, sub(), sub(), sub())
    if spec == "v":
        return (name,) + tuple(sub() for _ in range(rng.choice([1, 2, 2, 3])))
    if spec == "v2":
        return (name,) + tuple(sub() for _ in range(rng.choice([2, 2, 3])))
    if spec == "act":       # action< famN, R >
        return (name, rng.choice([0, 1, 2]), sub())
    if spec == "ctl":       # control< tc_x, R >
        return (name, rng.choice([1, 2, 3, 4]), sub())
    if spec == "ifa":       # if_apply< R, As... >
        n = rng.choice([0, 1, 1, 2])
        return (name, sub()) + tuple(rng.choice(["vt::ia_v< %d >", "vt::ia_b< %d >"]) % rng.randint(1, 4) for _ in range(n))
    if spec == "app":       # apply< As... > / apply0< As... >
        n = rng.choice([1, 1, 2])
        return (name,) + tuple(rng.choice(["vt::ia_v< %d >", "vt::ia_b< %d >"]) % rng.randint(1, 4) for _ in range(n))
    if spec[0] == "n":
        return (name, rng.randint(spec[1], spec[2])) + tuple(sub() for _ in range(rng.choice([1, 1, 2])))
    if spec[0] == "nn":
        lo = rng.randint(spec[1], spec[2])
        hi = rng.randint(lo, spec[2])
        return (name, lo, hi) + tuple(sub() for _ in range(rng.choice([1, 1, 2])))
    raise ValueError(spec)


def rand_grammar(rng, atoms, ops, nrules, depth, tries=200):
    """a terminating grammar of nrules named rules; the last rule is the root"""
    for _ in range(tries):
        rules = []
        for k in range(nrules):
            # rule k may refer to any rule (recursion allowed); well_formed() rejects left recursion
            e = rand_expr(rng, atoms, ops, depth, nrules if k > 0 or nrules > 1 else 0)
            rules.append((e, {}))
        if well_formed(rules) and reachable_all(rules):
            return rules
    return None


def refs_of(e):
    if e[0] == "ref":
        return {e[1]}
    out = set()
    for x in e[1:]:
        if isinstance(x, tuple):
            out |= refs_of(x)
    return out


def reachable_all(rules):
    n = len(rules)
    seen, todo = set(), [n - 1]
    while todo:
        k = todo.pop()
        if k in seen:
            continue
        seen.add(k)
        todo.extend(refs_of(rules[k][0]))
    return len(seen) == n
