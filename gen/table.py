#!/usr/bin/env python3
"""table.py -- turn the rule registry printed by the harness (one JSON object per compiled rule
type: demangled name, demangled rule_t, subs_t ids, flags) into the grammar table TLC reads.

The *documented* operator of a node and its arguments come from the public name of the type
(tao::pegtl::list< R, S > -> op "list", kids [R, S]); a rule the user named (struct R1 : seq<...>)
is described by its rule_t.  Template arguments are resolved to node ids by canonical name.
An operator this file does not know becomes "opaque" (generic contracts still apply, the
denotation check is skipped and counted) -- unless strict=True, then it is an error.
"""
import json
import re
import sys

PEGTL = "tao::pegtl::"


def canon(s):
    s = s.strip()
    s = re.sub(r"\s+", " ", s)
    s = re.sub(r" ?([<>,()*&]) ?", r"\1", s)
    return s


def split_args(s):
    """split 'a<b,c>,d' at top-level commas"""
    out, depth, cur = [], 0, ""
    for ch in s:
        if ch in "<(":
            depth += 1
        elif ch in ">)":
            depth -= 1
        if ch == "," and depth == 0:
            out.append(cur)
            cur = ""
        else:
            cur += ch
    if cur != "":
        out.append(cur)
    return out


def parse_type(name):
    """-> (base, [args]) with args as canonical strings"""
    name = canon(name)
    i = name.find("<")
    if i < 0 or not name.endswith(">"):
        return name, []
    return name[:i], split_args(name[i + 1:-1])


LIT = re.compile(r"^(?:\((?P<ty>[^)]*)\))?(?P<v>-?\d+)(?:u|ul|l|ull|ll)?$")


def lit(a):
    """integer literal template argument -> int, else None"""
    if a == "true":
        return 1
    if a == "false":
        return 0
    m = LIT.match(a)
    if not m:
        m2 = re.match(r"^\((?P<ty>[^)]*)\)'(?P<c>.)'$", a)
        if m2:
            return ord(m2.group("c"))
        return None
    return int(m.group("v"))


CORE = {"seq", "sor", "star", "plus", "opt", "at", "not_at"}
CORE_ATOMS = {"any", "one", "not_one", "range", "not_range", "string", "eof", "success", "failure"}
CONV = {"if_must", "if_must_else", "if_then_else", "list", "list_must", "list_tail", "minus", "must", "opt_must",
        "pad", "pad_opt", "partial", "rep", "rep_max", "rep_min", "rep_min_max", "rep_opt", "star_must", "strict",
        "star_strict", "star_partial", "until", "eolf", "keyword", "identifier", "shebang", "two", "three",
        "forty_two", "ranges", "everything", "separated_seq", "rep_string", "rep_one_min_max", "if_then", "rematch",
        "eol", "bof", "bol", "bytes", "require", "discard", "ellipsis"}
CLASSES = {"alnum", "alpha", "blank", "digit", "identifier_first", "identifier_other", "lower", "nul", "odigit",
           "print", "seven", "space", "upper", "xdigit", "cntrl", "graph"}
ALL_RULE_ARGS = CORE | {"must", "until", "if_then_else", "if_must", "if_must_else", "opt_must", "star_must", "list",
                        "list_must", "list_tail", "pad", "pad_opt", "minus", "rematch", "partial", "star_partial",
                        "strict", "star_strict", "enable", "disable"}
NUM1 = {"rep", "rep_min", "rep_max", "rep_opt"}
NOARG = {"any", "eof", "eol", "eolf", "bof", "bol", "success", "failure", "discard", "everything", "ellipsis",
         "identifier", "shebang"} | CLASSES
CHARARGS = {"one", "not_one", "range", "not_range", "ranges", "string", "istring", "keyword", "two", "three",
            "forty_two"}
TRY = {
    "try_catch_raise_nested": ("try_catch_raise_nested", 1),
    "try_catch_return_false": ("try_catch_return_false", 1),
    "try_catch_any_raise_nested": ("try_catch_raise_nested", 0),
    "try_catch_any_return_false": ("try_catch_return_false", 0),
    "try_catch_std_raise_nested": ("try_catch_raise_nested", 2),
    "try_catch_std_return_false": ("try_catch_return_false", 2),
}
EXC_KIND = {"void": 0, "tao::pegtl::parse_error_base": 1, "std::exception": 2, "vt::foreign_error": 3,
            "tao::pegtl::parse_error_template<tao::pegtl::position>": 1}


def prop_of(op):
    if op in CORE or op in CORE_ATOMS:
        return "C01"
    if op in CONV:
        return "C09"
    if op in CLASSES or op.startswith("u8") or op == "istring":
        return "C10"
    if op in ("raise", "try_catch_return_false", "try_catch_raise_nested"):
        return "C05"
    if op in ("state", "action", "control", "enable", "disable"):
        return "C13"
    if op in ("if_apply", "apply", "apply0"):
        return "C04"
    if op in ("limit_depth", "limit_bytes", "check_bytes"):
        return "C18"
    if op in ("unsigned_rule", "signed_rule", "maximum_rule"):
        return "C15"
    if op == "raw_string":
        return "C16"
    return "C01"


class View:
    def __init__(self, op, kids=(), p=(), s="", blame=None):
        self.op, self.kids, self.p, self.s, self.blame = op, list(kids), list(p), s, blame


def fam_of(a):
    m = re.match(r"^vt::fam(\d+)$", a)
    if m:
        return int(m.group(1))
    if a in ("tao::pegtl::nothing",):
        return 0
    return None


# rules whose outcome depends on a helper state the table cannot describe, or whose rule_t is only an
# approximation for the grammar analysis (DESIGN.md 2.4): never evaluated by Den
OPAQUE = ("tao::pegtl::http::chunk", "tao::pegtl::http::chunk_data", "tao::pegtl::http::chunk_size",
          "tao::pegtl::internal::raw_string_open<", "tao::pegtl::internal::at_raw_string_close<",
          "tao::pegtl::internal::raw_string_until<")


def ia_params(args):
    """harness actions vt::ia_v< N > / vt::ia_b< N > -> [kind, N, ...] (kind 1 void, 2 bool)"""
    out = []
    for a in args:
        m = re.match(r"^vt::ia_([vb])<(\d+)>$", a)
        if not m:
            return None
        out += [1 if m.group(1) == "v" else 2, int(m.group(2))]
    return out


def view_of(name):
    """documented view of a type name; kids are type-name strings.  None if unknown."""
    cn = canon(name)
    if any(cn == o or (o.endswith("<") and cn.startswith(o)) for o in OPAQUE):
        return View("opaque")
    base, args = parse_type(name)
    if not base.startswith(PEGTL):
        return None
    b = base[len(PEGTL):]
    internal = False
    u8 = False
    if b.startswith("internal::"):
        b = b[len("internal::"):]
        internal = True
    elif b.startswith("ascii::"):
        b = b[len("ascii::"):]
    elif b.startswith("utf8::"):
        b = b[len("utf8::"):]
        u8 = True
    if "::" in b:
        return None
    if b in ("list", "list_must", "list_tail") and args and args[-1] == "void":
        args = args[:-1]  # defaulted Pad = void
    lits = [lit(a) for a in args]

    if internal and b in ("one", "range", "ranges", "any"):
        # internal::one< result_on_found, Peek, Cs... >, internal::range< R, Peek, Lo, Hi >,
        # internal::ranges< Peek, Cs... >, internal::any< Peek >
        if b == "any":
            peek = args[0]
            rest = []
            neg = False
        elif b == "ranges":
            peek = args[0]
            rest = lits[1:]
            neg = False
        else:
            neg = lits[0] == 0
            peek = args[1]
            rest = lits[2:]
        if any(v is None for v in rest):
            return None
        if peek.endswith("peek_char"):
            pre = ""
        elif peek.endswith("peek_utf8"):
            pre = "u8"
        else:
            return None
        if b == "any":
            return View(pre + "any")
        if b == "one":
            return View(pre + ("not_one" if neg else "one"), p=rest)
        if b == "range":
            return View(pre + ("not_range" if neg else "range"), p=rest)
        return View(pre + "ranges", p=rest)

    if u8:
        if b in ("any", "bom") and not args:
            return View("u8" + b)
        if b in ("one", "not_one", "range", "not_range", "ranges", "string") and all(v is not None for v in lits):
            return View("u8" + b, p=lits)
        return None

    if b in NOARG and not args:
        return View(b)
    if b in CHARARGS and all(v is not None for v in lits):
        return View(b, p=lits)
    if b in ("bytes", "require") and len(args) == 1 and lits[0] is not None:
        return View(b, p=lits)
    if b in ("rep_string", "rep_one_min_max") and args and all(v is not None for v in lits):
        return View(b, p=lits)
    if b == "separated_seq" and args:
        return View(b, kids=args)
    if b in ("unsigned_rule", "signed_rule") and not args:
        return View(b)
    if b == "maximum_rule" and len(args) == 2 and lits[1] is not None:
        return View(b, p=[int(ch) for ch in str(lits[1])])
    if b == "raw_string" and len(args) >= 3 and all(v is not None for v in lits[:3]):
        return View(b, kids=args[3:], p=lits[:3])
    if b == "everything":
        return View("everything")
    if b == "if_must" and internal:
        # internal::if_must< Default, Cond, Rules... >
        return View("opt_must" if lits[0] == 1 else "if_must", kids=args[1:])
    if b in ALL_RULE_ARGS:
        return View(b, kids=args)
    if b in NUM1 and args and lits[0] is not None:
        return View(b, kids=args[1:], p=[lits[0]])
    if b == "rep_min_max" and len(args) >= 2 and lits[0] is not None and lits[1] is not None:
        return View(b, kids=args[2:], p=lits[:2])
    if b in TRY and not internal:
        op, kind = TRY[b]
        return View(op, kids=args, p=[kind])
    # internal::try_catch_*< Exception, Rules... > and the public try_catch_type_*< Exception, Rules... > name the exception type
    if b in ("try_catch_type_raise_nested", "try_catch_type_return_false") or (internal and b in ("try_catch_raise_nested", "try_catch_return_false")):
        kind = EXC_KIND.get(args[0])
        if kind is None:
            return None
        op = "try_catch_raise_nested" if b.endswith("raise_nested") else "try_catch_return_false"
        return View(op, kids=args[1:], p=[kind])
    if b == "raise" and len(args) == 1:
        return View("raise", s=args[0], blame=args[0])
    if b == "raise_message":
        return View("raise")
    if b == "action" and args:
        f = fam_of(args[0])
        if f is None:
            return None
        return View("action", kids=args[1:], p=[f])
    if b == "control" and args:
        cf = {"vt::tc_hid": 1, "vt::tc_hid_uw": 2, "vt::tc_full": 3, "vt::tc_full_uw": 4}.get(args[0])
        if cf is None:
            return View("opaque")
        return View("control", kids=args[1:], p=[cf])
    if b == "state" and args:
        # p[1] = 1: the state type is default-constructible only (vt::S2)
        return View("state", kids=args[1:], s=args[0], p=[1 if args[0] == "vt::S2" else 0])
    if b == "if_apply" and args:
        acts = ia_params(args[1:])
        if acts is None:
            return None
        return View("if_apply", kids=args[:1], p=acts)
    if b in ("apply", "apply0"):
        acts = ia_params(args)
        if acts is None:
            return None
        return View(b, p=acts)
    return None


def build(rows, strict=False):
    rows = sorted(rows, key=lambda r: r["id"])
    n = len(rows)
    assert [r["id"] for r in rows] == list(range(1, n + 1)), "node ids must be 1..n"
    name2id = {}
    for r in rows:
        name2id.setdefault(canon(r["name"]), r["id"])
    nodes = []
    unknown = []
    for r in rows:
        doc = view_of(r["name"])
        impl = view_of(r["rule_t"])
        use = doc
        named = 0
        if use is None:
            use = impl
            named = 1
        kids = None
        if use is not None:
            ks = [name2id.get(canon(k)) for k in use.kids]
            if any(k is None for k in ks):
                # a template argument that is not in the table (e.g. rep< 0, R >): fall back to the implementation view
                if impl is not None and use is doc:
                    use = impl
                    ks = [name2id.get(canon(k)) for k in use.kids]
                if any(k is None for k in ks):
                    if len(use.kids) == len(r["subs"]):
                        ks = list(r["subs"])
                    else:
                        use = None
            kids = ks
        if use is None:
            unknown.append(r["name"])
            if strict:
                raise SystemExit("table.py: unknown rule " + r["name"] + " rule_t " + r["rule_t"])
            use = View("opaque")
            kids = list(r["subs"])
        p = list(use.p)
        s = use.s
        if use.op == "try_catch_raise_nested":
            # Control< Rule >::raise_nested is called for the single sub-rule of the implementation
            p = p + [r["subs"][0] if r["subs"] else 0]
        thas, tmsg = 0, ""
        if use.op == "raise":
            if use.blame is not None:
                # raise< T >: Control< T >::raise names T -- pegtl's own demangling of T if T is in the table, else the C++ name
                tid = name2id.get(canon(use.blame))
                p = [tid or 0]           # the type whose raise() is called (0: not in the table)
                s = rows[tid - 1]["dn"] if tid else use.blame
                if tid and rows[tid - 1]["hasmsg"]:
                    thas, tmsg = 1, rows[tid - 1]["emsg"]
            else:
                # raise_message< Cs... > raises for itself
                p = [r["id"]]
                s = r["dn"]
                thas, tmsg = r["hasmsg"], r["emsg"]
        iv = impl if impl is not None else View("opaque")
        nodes.append({
            "id": r["id"], "name": r["name"], "dn": r["dn"], "op": use.op, "kids": kids, "p": p, "s": s,
            "named": named, "en": r["en"], "vid": r["vid"], "ak": r["ak"], "sel": r["sel"], "lim": r.get("lim", 0), "sw": r.get("sw", 0),
            "hasmsg": r["hasmsg"], "emsg": r["emsg"], "thas": thas, "tmsg": tmsg, "prop": prop_of(use.op),
            "mihas": r.get("mihas", 0), "mimsg": r.get("mimsg", ""), "mirof": r.get("mirof", -1),
            "iop": iv.op, "ikids": list(r["subs"]), "ip": list(p) if iv.op == "raise" else list(iv.p),
        })
    return {"nodes": nodes}, unknown


def main():
    src, dst = sys.argv[1], sys.argv[2]
    strict = len(sys.argv) > 3 and sys.argv[3] == "--strict"
    rows = [json.loads(l) for l in open(src) if l.strip()]
    table, unknown = build(rows, strict)
    json.dump(table, open(dst, "w"))
    if unknown:
        sys.stderr.write("table.py: %d opaque rule(s): %s\n" % (len(unknown), "; ".join(unknown[:5])))


if __name__ == "__main__":
    main()
