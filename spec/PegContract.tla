----------------------------- MODULE PegContract -----------------------------
(***************************************************************************)
(* Abstract layer: what any correct parsing run may show an observer.      *)
(*                                                                         *)
(* The state is a stack of open rule invocations plus a verdict log.  The  *)
(* transitions are the observable events of a run (DESIGN.md 2.3): case,   *)
(* en(ter), ex(it), xc (exit by exception), the control hooks st su fa uw  *)
(* ra, the action calls ap a0, and end.  Every guard that fails appends a  *)
(* verdict naming the property whose statement it transcribes; it never    *)
(* blocks, so one pass over a trace reports everything.                    *)
(*                                                                         *)
(* The guards mention only observed values and the denotation Den; they    *)
(* say nothing about how a rule is implemented.                            *)
(***************************************************************************)
EXTENDS Integers, Sequences, FiniteSets, TLC

CONSTANTS Nodes      \* grammar table

VARIABLES stk,       \* open invocations, innermost last
          cs,        \* the current case record (input bytes, configuration)
          lastx,     \* the most recently closed invocation
          verd,      \* verdict log
          cnt        \* coverage counters (how often each guard was evaluated)

cvars == <<stk, cs, lastx, verd, cnt>>

D == INSTANCE PegDen WITH Nodes <- Nodes, W <- cs.w

DenFuel == 160

NoCase == [id |-> 0, g |-> 0, w |-> <<>>, A |-> 1, M |-> 1, af |-> 0, cf |-> 1, trk |-> 0, eol |-> 3,
           ib |-> 0, il |-> 1, ic |-> 1, cls |-> 0, xt |-> 0, bmax |-> 0, bchunk |-> 0, sched |-> 0, tl |-> <<>>, bt |-> <<>>]
NoLast == [r |-> 0, v |-> -1, o |-> 0, mx |-> 0, lvl |-> 0, x |-> 0, eo |-> 0, tr |-> <<>>, endv |-> -1, endx |-> 0]
Cnt0   == [ev |-> 0, cases |-> 0, den |-> 0, opq |-> 0, req |-> 0, look |-> 0, pos |-> 0, hook |-> 0, act |-> 0,
           xcs |-> 0, ends |-> 0, raise |-> 0, fuel |-> 0, state |-> 0, sw |-> 0, tree |-> 0, rd |-> 0, cls2 |-> 0, ana |-> 0, anag |-> 0, anap |-> -1, anacert |-> 0, analoop |-> 0, acc |-> 0, slices |-> 0, cov |-> 0]

CInit == /\ stk = <<>>
         /\ cs = NoCase
         /\ lastx = NoLast
         /\ verd = <<>>
         /\ cnt = Cnt0

-----------------------------------------------------------------------------
Top == stk[Len(stk)]
Pop == SubSeq(stk, 1, Len(stk) - 1)
Max2(a, b) == IF a >= b THEN a ELSE b

Known(r) == r >= 1 /\ r <= Len(Nodes)
OpOf(r)  == IF Known(r) THEN Nodes[r].op ELSE "opaque"
PropOfRule(r) == IF Known(r) THEN Nodes[r].prop ELSE "C01"

\* control families: 1 hidden, 2 hidden + unwind, 3 full, 4 full + unwind, 5 / 6 must_if< Errors > (full + unwind; 5: a rule
\* with a message raises on local failure, 6: Errors::raise_on_failure decides)
FullVis(cf)   == cf \in {3, 4, 5, 6}
HasUnwind(cf) == cf \in {2, 4, 5, 6}
MiOf(cf)      == IF cf = 5 THEN 1 ELSE IF cf = 6 THEN 2 ELSE 0

\* context of an invocation, as far as the denotation depends on it (DESIGN.md 2.4)
\* (incremental inputs have no fixed end pointer: e = -1, the logical end is the end of the stream)
CtxOf(f) == [A |-> f.A, lim |-> IF f.e < 0 THEN Len(cs.w) ELSE f.e, fam |-> f.af, vis |-> IF FullVis(f.cf) THEN 1 ELSE 0,
             eol |-> cs.eol, ib |-> cs.ib, il |-> cs.il, ic |-> cs.ic, dep |-> IF f.d >= 0 THEN f.d ELSE 0, mi |-> MiOf(f.cf)]
PosCtx == [eol |-> cs.eol, ib |-> cs.ib, il |-> cs.il, ic |-> cs.ic]

VisibleF(f) == Known(f.r) /\ (FullVis(f.cf) \/ Nodes[f.r].en = 1)

\* limits attached through action family 4 (C18)
Min2(a, b) == IF a <= b THEN a ELSE b
FrameLim(f) == IF Known(f.r) /\ f.af = 4 THEN Nodes[f.r].lim \div 1000 ELSE 0
FrameLimN(f) == Nodes[f.r].lim % 1000

\* parse tree (C12): the surviving derivation of the selected rules, built from the validated invocations.
\* A (sub)tree is a pre-order list of <<rule, begin, end or -1, has content, depth>>.
TreeMode == cs.xt \in {1, 2}
SelKind(f) == IF ~Known(f.r) \/ Nodes[f.r].en = 0 \/ f.dlg = 1 THEN 0 ELSE IF cs.xt = 2 THEN 1 ELSE Nodes[f.r].sel
Deeper(t) == [i \in 1..Len(t) |-> <<t[i][1], t[i][2], t[i][3], t[i][4], t[i][5] + 1>>]
NDirect(t) == Cardinality({i \in 1..Len(t) : t[i][5] = 0})
\* node of a successful match [b, e] of an invocation with children t, after the selector's transformer
OwnTree(f, e, t) ==
   LET k == SelKind(f) IN
   CASE k = 0 -> t
     [] k = 1 -> <<<<f.r, f.o, e, 1, 0>>>> \o Deeper(t)
     [] k = 2 -> <<<<f.r, f.o, -1, 0, 0>>>> \o Deeper(t)
     [] k = 3 -> IF NDirect(t) = 1 THEN t ELSE <<<<f.r, f.o, -1, 0, 0>>>> \o Deeper(t)                \* fold_one
     [] k = 4 -> IF NDirect(t) = 0 THEN <<>> ELSE <<<<f.r, f.o, -1, 0, 0>>>> \o Deeper(t)              \* discard_empty

\* switches (C13): what an invocation prescribes for its sub-rules
FrameSw(f) == IF Known(f.r) /\ f.af = 5 THEN Nodes[f.r].sw ELSE 0
\* (iop: the operator of the implementation, e.g. rep_min_max< 0, 0, R > is implemented by, and behaves as, not_at< R >)
IOpOf(r) == IF Known(r) THEN Nodes[r].iop ELSE "opaque"
ExpA(f) == LET op == OpOf(f.r) sw == FrameSw(f) IN
           \* the rule's own operator acts inside whatever its action class switched
           IF op \in {"at", "not_at", "disable"} \/ IOpOf(f.r) \in {"at", "not_at"} THEN 0
           ELSE IF op = "enable" THEN 1
           ELSE IF sw = 8 THEN 0 ELSE IF sw = 7 THEN 1 ELSE f.A
ExpAf(f) == IF OpOf(f.r) = "action" THEN Nodes[f.r].p[1] ELSE IF FrameSw(f) \in {3, 4, 5, 10} THEN 1 ELSE f.af
ExpCf(f) == IF OpOf(f.r) = "control" THEN Nodes[f.r].p[1] ELSE IF FrameSw(f) = 6 THEN 2 ELSE f.cf
ExpS(f) == IF f.sid > 0 THEN f.sid ELSE f.s
\* change_action* re-enter Control< Rule >::match for the same rule with the new action family: that second
\* invocation is not yet inside the rule's body, so the rule's own operator (at, disable, ...) does not apply to it
Reentry(ev) == stk # <<>> /\ ev.r = Top.r /\ FrameSw(Top) \in {3, 4, 5, 10} /\ Top.kids = 0
ExpChild(ev) == IF Reentry(ev) THEN <<Top.A, 1, Top.cf>> ELSE <<ExpA(Top), ExpAf(Top), ExpCf(Top)>>
\* 1: the state rule, 2: an action-based state switch, 0: no state scope
\* (the action-based switch comes first: for change_action_and_state(s) the state<> rule itself is only reached in the
\* re-entered invocation, which runs under the new action family and therefore has no switch of its own)
\* (and a state<> rule that carries a plain change_action is likewise only reached in the re-entry: its outer invocation
\* is no state scope)
ScopeKind(f) == IF FrameSw(f) \in {1, 2, 4, 5, 9, 10} THEN 2 ELSE IF FrameSw(f) = 3 THEN 0 ELSE IF OpOf(f.r) = "state" THEN 1 ELSE 0
\* the state type can only be default-constructed (change_states always default-constructs)
DefaultedOK(f) == FrameSw(f) \in {2, 5, 9, 10} \/ (OpOf(f.r) = "state" /\ Nodes[f.r].p = <<1>>)
GuardedOpen == Cardinality({j \in 1..Len(stk) : FrameLim(stk[j]) = 1 /\ VisibleF(stk[j])})

\* st: the operators of the open invocations, outermost first (the call site of the verdict)
\* w, cfg: input and configuration of the case (known findings are identified by call site, input and configuration)
V(prop, idx, r, why, a, b) == [p |-> prop, case |-> cs.id, i |-> idx, r |-> r, why |-> why, a |-> a, b |-> b,
                               st |-> [j \in 1..Len(stk) |-> OpOf(stk[j].r)], w |-> cs.w,
                               cfg |-> [g |-> cs.g, A |-> cs.A, M |-> cs.M, af |-> cs.af, cf |-> cs.cf, trk |-> cs.trk, eol |-> cs.eol,
                                        ib |-> cs.ib, il |-> cs.il, ic |-> cs.ic, cls |-> cs.cls, xt |-> cs.xt, bmax |-> cs.bmax,
                                        bchunk |-> cs.bchunk, sched |-> cs.sched]]
If(cond, v) == IF cond THEN <<v>> ELSE <<>>

\* C06: byte, line and column are a function of the consumed prefix
PosBad(ev) == \/ ev.b # D!PosByte(ev.o, PosCtx)
              \/ ev.l # D!PosLine(ev.o, PosCtx)
              \/ ev.c # D!PosCol(ev.o, PosCtx)
PosV(ev, idx, r) == If(ev.o >= 0 /\ ev.o <= Len(cs.w) /\ PosBad(ev),
                       V("C06", idx, r, "position is not the function of the consumed prefix",
                         <<ev.b, ev.l, ev.c>>, <<D!PosByte(ev.o, PosCtx), D!PosLine(ev.o, PosCtx), D!PosCol(ev.o, PosCtx)>>))
\* C03: the cursor never leaves [0, end]
BoundV(ev, idx, r) == If(ev.e >= 0 /\ (ev.o < 0 \/ ev.o > ev.e \/ ev.e > Len(cs.w)),
                         V("C03", idx, r, "cursor or logical end outside the input", ev.o, ev.e))

Bump(c, key) == [c EXCEPT ![key] = @ + 1]
\* tallies of a coverage run: rule (or <<parent, child>>) -> <<start, success, failure, unwind, raise>>, counted from en / ex / xc / ra
TZero == <<0, 0, 0, 0, 0>>
TInc(t, key, i) == IF key \in DOMAIN t THEN [t EXCEPT ![key] = [@ EXCEPT ![i] = @ + 1]] ELSE (key :> [TZero EXCEPT ![i] = 1]) @@ t
TGet(t, key) == IF key \in DOMAIN t THEN t[key] ELSE TZero

\* The verdict log is capped: a defect that shows in every case would otherwise make every state carry (and TLC
\* fingerprint) a log of tens of thousands of records.  Truncation is visible to the driver (Len = MaxV).
MaxV == 300
VCap(v) == IF Len(v) > MaxV THEN SubSeq(v, 1, MaxV) ELSE v

-----------------------------------------------------------------------------
(* case: a new run starts *)
OnCase(ev, idx) ==
   /\ stk' = <<>>
   /\ cs' = ev @@ [tl |-> <<>>, bt |-> <<>>]      \* (tallies of a coverage run, see OnCov)
   /\ lastx' = NoLast
   /\ verd' = VCap(verd \o If(stk # <<>>, V("C08", idx, 0, "run ended with open invocations", Len(stk), 0)))
   /\ cnt' = [cnt EXCEPT !.cases = @ + 1, !.ev = @ + 1, !.cls2 = @ + (IF ev.cls >= 2 THEN 1 ELSE 0)]

(* en: a rule is asked to match *)
OnEnter(ev, idx) ==
   /\ stk' = Append(IF stk = <<>> THEN stk
                    ELSE [stk EXCEPT ![Len(stk)] = [Top EXCEPT !.kids = Top.kids + 1,
                                                               !.dlg = IF Top.r = ev.r /\ Top.ph = 0 /\ Top.kids = 0 THEN 1 ELSE Top.dlg]], [r |-> ev.r, A |-> ev.A, M |-> ev.M, b |-> ev.b, l |-> ev.l, c |-> ev.c, o |-> ev.o,
                          e |-> ev.e, mx |-> ev.o, ph |-> 0, na |-> 0, ni |-> 0, iv |-> -1, av |-> -1, sid |-> 0, sst |-> 0, sss |-> 0, kids |-> 0, dlg |-> 0, tr |-> <<>>, af |-> ev.af, cf |-> ev.cf, ph3 |-> 0,
                          d |-> ev.d, s |-> ev.s])
   /\ verd' = VCap(verd \o PosV(ev, idx, ev.r) \o BoundV(ev, idx, ev.r)
        \* C13: apply mode, action family, control and innermost state of a sub-rule are what the enclosing rule prescribes
        \o If(stk # <<>> /\ OpOf(Top.r) # "opaque" /\ <<ev.A, ev.af, ev.cf>> # ExpChild(ev),
              V("C13", idx, ev.r, "apply mode / action family / control of a sub-rule is not what the enclosing switches prescribe",
                <<ev.A, ev.af, ev.cf>>, ExpChild(ev)))
        \o If(stk # <<>> /\ OpOf(Top.r) # "opaque" /\ ev.s # ExpS(Top) /\ (Top.sid > 0 \/ Top.s > 0 \/ ScopeKind(Top) > 0),
              V("C13", idx, ev.r, "sub-rule does not receive the innermost live state", ev.s, ExpS(Top)))
        \* C18: the depth counter is the number of open depth-guarded invocations
        \o If(ev.d >= 0 /\ ev.d # GuardedOpen, V("C18", idx, ev.r, "depth counter differs from the number of open guarded rules", ev.d, GuardedOpen))
        \* C18: a byte-limited rule (and everything it calls) sees at most N bytes from where its match started
        \o If(stk # <<>> /\ FrameLim(Top) = 2 /\ ev.e # Min2(Top.e, Top.o + FrameLimN(Top)),
              V("C18", idx, Top.r, "byte-limited rule does not see exactly min(end, start + N)", ev.e, <<Top.o, Top.e, FrameLimN(Top)>>))
        \o If(stk # <<>> /\ FrameLim(Top) # 2 /\ ev.e # Top.e /\ OpOf(Top.r) \notin {"rematch", "minus", "opaque"},
              V("C18", idx, Top.r, "logical end of the input changed without a byte limit", ev.e, Top.e)))
   /\ cnt' = Bump(Bump(cnt, "pos"), "ev")
   /\ cs' = IF cs.xt = 4 THEN [cs EXCEPT !.tl = TInc(@, ev.r, 1), !.bt = IF stk = <<>> THEN @ ELSE TInc(@, <<Top.r, ev.r>>, 1)] ELSE cs
   /\ UNCHANGED lastx

(* st su fa uw: control hooks of the innermost open invocation (C08) *)
HookPhase(k) == CASE k = "st" -> 1 [] k = "su" -> 3 [] k = "fa" -> 4 [] k = "uw" -> 5
OnHook(ev, idx) ==
   IF stk = <<>> \/ Top.r # ev.r
   THEN /\ verd' = VCap(Append(verd, V("C08", idx, ev.r, "hook for a rule that is not the innermost open invocation", ev.k, 0)))
        /\ cnt' = Bump(cnt, "ev")
        /\ UNCHANGED <<stk, cs, lastx>>
   ELSE LET f == Top
            okphase == CASE ev.k = "st" -> f.ph = 0
                         [] ev.k = "su" -> f.ph \in {1, 2} /\ f.av # 2
                         [] ev.k = "fa" -> f.ph \in {1, 2}
                         [] ev.k = "uw" -> f.ph \in {1, 2}
        IN /\ stk' = [stk EXCEPT ![Len(stk)] = [f EXCEPT !.ph = HookPhase(ev.k), !.mx = Max2(f.mx, ev.o),
                                                        !.cf = IF FrameSw(f) = 6 THEN ev.cf ELSE f.cf]]
           /\ verd' = VCap(verd
                \o If(~VisibleF([f EXCEPT !.cf = IF FrameSw(f) = 6 THEN ev.cf ELSE f.cf]), V("C08", idx, ev.r, "hook fired for a rule whose control is disabled", ev.k, 0))
                \o If(FrameSw(f) = 6 /\ ev.cf # 2, V("C13", idx, ev.r, "hooks of a rule with change_control do not go to the new control", ev.cf, 2))
                \o If(~okphase, V("C08", idx, ev.r, "hook out of order", ev.k, f.ph))
                \o If(ev.k = "st" /\ ev.o # f.o, V("C08", idx, ev.r, "start not at the position of the attempt", ev.o, f.o))
                \o PosV(ev, idx, ev.r))
           /\ cnt' = Bump(Bump(cnt, "hook"), "ev")
           /\ UNCHANGED <<cs, lastx>>

(* ra: Control< R >::raise was called (C05, C08) *)
RaiseOps == {"must", "raise", "if_must", "if_must_else", "opt_must", "star_must", "list_must", "shebang"}
OnRaise(ev, idx) ==
   LET f == IF stk = <<>> THEN [r |-> 0, o |-> 0] ELSE Top
       fromMust  == OpOf(f.r) = "must" /\ lastx.r = ev.r /\ lastx.v = 0 /\ lastx.lvl = Len(stk) + 1
       fromRaise == OpOf(f.r) = "raise"
       fromLimit == stk # <<>> /\ FrameLim(Top) \in {1, 2}       \* limit_depth / limit_bytes raise for themselves
   IN /\ verd' = VCap(verd
           \o If(~(fromMust \/ fromRaise \/ fromLimit), V("C08", idx, ev.r, "raise outside a must-context or raise rule", f.r, lastx.r))
           \o If(fromMust /\ ~(lastx.o <= ev.o /\ ev.o <= lastx.mx),
                 V("C05", idx, ev.r, "raise position outside the failed attempt", ev.o, <<lastx.o, lastx.mx>>))
           \o If(fromRaise /\ ev.o # f.o, V("C05", idx, ev.r, "raise rule raised away from its position", ev.o, f.o))
           \o PosV(ev, idx, ev.r))
      /\ cnt' = Bump(Bump(cnt, "raise"), "ev")
      /\ cs' = IF cs.xt = 4 THEN [cs EXCEPT !.tl = TInc(@, ev.r, 5)] ELSE cs
      /\ UNCHANGED <<stk, lastx>>

(* ap a0: the control dispatched an action (C04, C08) *)
OnApply(ev, idx) ==
   IF stk = <<>> \/ Top.r # ev.r
   THEN /\ verd' = VCap(Append(verd, V("C04", idx, ev.r, "action for a rule that is not the innermost open invocation", ev.k, 0)))
        /\ cnt' = Bump(cnt, "ev")
        /\ UNCHANGED <<stk, cs, lastx>>
   ELSE LET f == Top
            kind == D!AKind(f.r, ev.af)
            body == D!DenBody(f.r, f.o, CtxOf(f), DenFuel)
            wantsInput == ev.k = "ap"
        IN /\ stk' = [stk EXCEPT ![Len(stk)] = [f EXCEPT !.ph = 2, !.na = f.na + 1, !.av = ev.v]]
           /\ verd' = VCap(verd
                \o If(f.A # 1, V("C04", idx, ev.r, "action invoked while actions are disabled", 0, 0))
                \o If(~VisibleF(f), V("C04", idx, ev.r, "action invoked for a rule hidden from the control", 0, 0))
                \o If(ev.af # f.af, V("C13", idx, ev.r, "action family differs from the one in effect", ev.af, f.af))
                \o If((wantsInput /\ kind \notin {1, 3, 5, 6}) \/ (~wantsInput /\ kind \notin {2, 4, 7}),
                      V("C04", idx, ev.r, "no such action attached to this rule", kind, ev.k))
                \o If(f.ph # 1, V("C08", idx, ev.r, "action not between start and success/failure", f.ph, 0))
                \o If(f.na # 0, V("C04", idx, ev.r, "more than one action call for one match", f.na + 1, 0))
                \o If(wantsInput /\ ev.o # f.o, V("C04", idx, ev.r, "action input does not begin where the match began", ev.o, f.o))
                \o If(wantsInput /\ ev.eo # ev.io, V("C04", idx, ev.r, "action input does not end at the cursor", ev.eo, ev.io))
                \o If(body.k \in {"F", "X"} \/ (body.k = "T" /\ body.e # ev.io),
                      V("C04", idx, ev.r, "action invoked for a rule that did not just match this span", <<f.o, ev.io>>, body))
                \o If(wantsInput /\ ev.s # f.s, V("C13", idx, ev.r, "action received a state other than the innermost one", ev.s, f.s))
                \o (IF wantsInput THEN PosV(ev, idx, ev.r) ELSE <<>>))
           /\ cnt' = Bump(Bump(cnt, "act"), "ev")
           /\ UNCHANGED <<cs, lastx>>

(* ia i0: an action listed in if_apply< R, As... > / apply< As... > / apply0< As... > ran (C04) *)
OnIa(ev, idx) ==
   IF stk = <<>> \/ OpOf(Top.r) \notin {"if_apply", "apply", "apply0"}
   THEN /\ verd' = VCap(Append(verd, V("C04", idx, 0, "listed action ran outside an if_apply/apply/apply0 rule", ev.n, 0)))
        /\ cnt' = Bump(cnt, "ev")
        /\ UNCHANGED <<stk, cs, lastx>>
   ELSE LET f == Top
            op == OpOf(f.r)
            pp == Nodes[f.r].p
            k  == f.ni + 1                      \* this is the k-th listed action
            want0 == op = "apply0"
            kidT == IF op = "if_apply" THEN D!Den(Nodes[f.r].kids[1], f.o, CtxOf(f), DenFuel) ELSE D!RT(f.o)
        IN /\ stk' = [stk EXCEPT ![Len(stk)] = [f EXCEPT !.ni = k, !.iv = ev.v]]
           /\ verd' = VCap(verd
                \o If(f.A # 1, V("C04", idx, f.r, "listed action invoked while actions are disabled", ev.n, 0))
                \o If((ev.k = "i0") # want0, V("C04", idx, f.r, "apply called where apply0 is listed or vice versa", ev.k, op))
                \o If(2 * k > Len(pp) \/ (2 * k <= Len(pp) /\ pp[2*k] # ev.n), V("C04", idx, f.r, "listed actions called out of order or too often", ev.n, k))
                \o If(f.iv = 2, V("C04", idx, f.r, "listed action called after an earlier one returned false", ev.n, k))
                \o If(ev.k = "ia" /\ ev.o # f.o, V("C04", idx, f.r, "action input does not begin where the match began", ev.o, f.o))
                \o If(ev.k = "ia" /\ kidT.k = "T" /\ ev.eo # kidT.e, V("C04", idx, f.r, "action input does not end where the match ended", ev.eo, kidT.e))
                \o If(ev.k = "ia" /\ kidT.k \in {"F", "X"}, V("C04", idx, f.r, "listed action invoked although the rule did not match", ev.eo, kidT))
                \o (IF ev.k = "ia" THEN PosV(ev, idx, f.r) ELSE <<>>))
           /\ cnt' = Bump(Bump(cnt, "act"), "ev")
           /\ UNCHANGED <<cs, lastx>>

(* sc ss sd: life cycle of an instrumented state object (C13) *)
OnState(ev, idx) ==
   IF stk = <<>>
   THEN /\ verd' = VCap(Append(verd, V("C13", idx, 0, "state event outside any rule", ev.k, ev.sid)))
        /\ cnt' = Bump(cnt, "ev")
        /\ UNCHANGED <<stk, cs, lastx>>
   ELSE LET f == Top
            kind == ScopeKind(f)
            defaulted == ev.k = "sc" /\ ev.os = -1
        IN /\ stk' = [stk EXCEPT ![Len(stk)] =
                         CASE ev.k = "sc" -> [f EXCEPT !.sid = ev.sid, !.sst = 1]
                           [] ev.k = "ss" -> [f EXCEPT !.sss = f.sss + 1, !.sst = IF f.sst = 1 THEN 2 ELSE f.sst]
                           [] ev.k = "sd" -> [f EXCEPT !.sst = 3]]
           /\ verd' = VCap(verd
                \o If(kind = 0, V("C13", idx, f.r, "state object handled by a rule that is not a state scope", ev.k, ev.sid))
                \o If(ev.k = "sc" /\ (f.kids # 0 \/ f.sid # 0), V("C13", idx, f.r, "state not created exactly once at the start of the attached rule's attempt", f.kids, f.sid))
                \o If(ev.k = "sc" /\ ~defaulted /\ (ev.os # f.s \/ ev.o # f.o), V("C13", idx, f.r, "state constructed with other than the outer states / the position of the attempt", <<ev.os, ev.o>>, <<f.s, f.o>>))
                \o If(ev.k = "sc" /\ defaulted /\ ~DefaultedOK(f), V("C13", idx, f.r, "state default-constructed although it can be constructed from the input and outer states", 0, 0))
                \o If(ev.k \in {"ss", "sd"} /\ ev.sid # f.sid, V("C13", idx, f.r, "state event for an object that does not belong to this scope", ev.sid, f.sid))
                \o If(ev.k = "ss" /\ (f.sst # 1 \/ f.sss # 0), V("C13", idx, f.r, "success called twice or on a dead state", f.sst, f.sss))
                \o If(ev.k = "ss" /\ ~(lastx.v = 1 /\ lastx.lvl = Len(stk) + 1 /\ ev.o = lastx.eo) /\ kind = 1,
                      V("C13", idx, f.r, "success called although the rule did not just match, or not with the cursor after the match", <<ev.o, lastx.v>>, lastx.eo))
                \o If(ev.k = "ss" /\ kind = 2 /\ f.A # 1, V("C13", idx, f.r, "action-based state switch called success while actions are disabled", 0, 0))
                \o If(ev.k = "ss" /\ ev.os # f.s, V("C13", idx, f.r, "success not called with the outer states", ev.os, f.s))
                \o (IF ev.k = "ss" THEN PosV(ev, idx, f.r) ELSE <<>>))
           /\ cnt' = Bump(Bump(cnt, "state"), "ev")
           /\ UNCHANGED <<cs, lastx>>

-----------------------------------------------------------------------------
(* comparison of an observed outcome with the denotation (C01, C09, C05, ...) *)
\* C07: with a buffer too small for the look-ahead the grammar performs, std::overflow_error (exception class 5) is
\* the one permitted deviation; "too small" = less than the whole input plus the largest amount a corpus rule requests
Incremental == cs.cls \in {2, 7, 8, 9}
OverflowTolerated == cs.cls = 2 /\ cs.bmax < Len(cs.w) + 8
XClassOf(who) == IF who > 0 \/ who \in ({D!XActParseError} \cup D!XLimits) THEN 1 ELSE IF who = D!XActForeign THEN 3 ELSE 0

DenV(f, idx, v, o, x) ==   \* v: 1 success, 0 failure, 2 exception of class x
   IF ~Known(f.r) THEN <<>> ELSE
   LET d == D!Den(f.r, f.o, CtxOf(f), DenFuel) IN
   IF d.k \in {"L", "O"} \/ x = 4 \/ (x = 5 /\ OverflowTolerated) THEN <<>>
   ELSE LET agree == CASE d.k = "T" -> v = 1 /\ o = d.e
                       [] d.k = "F" -> v = 0
                       [] d.k = "X" -> v = 2 /\ x = XClassOf(d.who)
            \* a disagreement at an invocation guarded by a limit, or about a limit's exception, is a limit matter
            prop == IF FrameLim(f) # 0 \/ (d.k = "X" /\ d.who \in D!XLimits) THEN "C18"
                    ELSE IF cs.cls >= 2 THEN "C07"       \* the same case through a memory input is validated separately
                    ELSE IF cs.xt = 3 THEN "C03"         \* slice: the bytes behind the logical end influenced the outcome
                    ELSE IF MiOf(cs.cf) > 0 THEN "C05"   \* must_if: which local failures become global ones
                    ELSE IF cs.xt \in {4, 5} THEN "C08"    \* coverage / tracer run: the state_control adapter or the coverage state interfered
                    ELSE PropOfRule(f.r)
        IN If(~agree, V(prop, idx, f.r, "outcome differs from the denotation", <<v, o, x>>, d))

(* ex: the invocation returns *)
OnExit(ev, idx) ==
   IF stk = <<>> \/ Top.r # ev.r
   THEN /\ verd' = VCap(Append(verd, V("C08", idx, ev.r, "return of a rule that is not the innermost open invocation", 0, 0)))
        /\ cnt' = Bump(cnt, "ev")
        /\ UNCHANGED <<stk, cs, lastx>>
   ELSE LET f == Top
            moved == ev.o # f.o \/ ev.b # f.b \/ ev.l # f.l \/ ev.c # f.c
            \* a rule whose action class re-enters Control< Rule >::match (change_action*) shows up as two nested
            \* invocations of the same rule; hooks and actions belong to the inner one
            vis == VisibleF(f) /\ f.dlg = 0
            scope == ScopeKind(f)
            mx == Max2(f.mx, ev.o)
            rest == Pop
            mytree == IF TreeMode /\ ev.v = 1 THEN OwnTree(f, ev.o, f.tr) ELSE <<>>
        IN /\ stk' = IF rest = <<>> THEN rest
                     ELSE LET par == rest[Len(rest)] IN [rest EXCEPT ![Len(rest)] = [par EXCEPT !.mx = Max2(par.mx, mx), !.tr = par.tr \o mytree]]
           /\ lastx' = [r |-> f.r, v |-> ev.v, o |-> f.o, mx |-> mx, lvl |-> Len(stk), x |-> 0, eo |-> ev.o,
                        tr |-> IF rest = <<>> THEN mytree ELSE <<>>, endv |-> -1, endx |-> 0]
           /\ verd' = VCap(verd
                \* C02
                \o If(ev.v = 0 /\ f.M = 1 /\ moved,
                      V("C02", idx, f.r, "local failure under rewind_mode::required left the cursor moved", <<f.b, f.l, f.c, f.o>>, <<ev.b, ev.l, ev.c, ev.o>>))
                \o If(OpOf(f.r) \in {"at", "not_at"} /\ moved,
                      V("C02", idx, f.r, "look-ahead rule moved the cursor", <<f.b, f.l, f.c, f.o>>, <<ev.b, ev.l, ev.c, ev.o>>))
                \o If(ev.v = 1 /\ ev.o < f.o, V("C02", idx, f.r, "cursor moved backwards on success", f.o, ev.o))
                \* C06, C03
                \o PosV(ev, idx, f.r) \o BoundV(ev, idx, f.r)
                \* C08
                \o If(vis /\ ev.v = 1 /\ f.ph # 3, V("C08", idx, f.r, "returned success without a success hook", f.ph, 0))
                \o If(vis /\ ev.v = 0 /\ f.ph # 4, V("C08", idx, f.r, "returned failure without a failure hook", f.ph, 0))
                \o If(~vis /\ f.ph # 0, V("C08", idx, f.r, "hooks fired for a disabled rule", f.ph, 0))
                \* C13: the state exists exactly for the duration of the attempt and gets success iff the rule matched
                \o If(scope > 0 /\ (f.sid = 0 \/ f.sst # 3), V("C13", idx, f.r, "state of the scope not created, or not destroyed before the rule returned", f.sid, f.sst))
                \* (a user-named rule deriving from state<> may carry an action of its own: the state rule has matched, and
                \* got its success, when that action is called -- even if the action then vetoes)
                \o If(scope > 0 /\ ev.v = 1 /\ f.sss # (IF scope = 1 \/ f.A = 1 THEN 1 ELSE 0), V("C13", idx, f.r, "rule matched: success not called exactly once (action-based switches: only while actions are enabled)", f.sss, f.A))
                \o If(scope > 0 /\ ev.v = 0 /\ f.sss # (IF scope = 1 /\ f.na > 0 THEN 1 ELSE 0), V("C13", idx, f.r, "success called although the rule failed", f.sss, 0))
                \* C04
                \o If(f.av = 2 /\ (ev.v # 0 \/ ev.o # f.o), V("C04", idx, f.r, "action returned false but the match was not turned into a failure at its start", ev.v, ev.o))
                \o If(ev.v = 1 /\ vis /\ f.A = 1 /\ D!AKind(f.r, f.af) # 0 /\ f.na # 1,
                      V("C04", idx, f.r, "successful match of a rule with an action without exactly one action call", f.na, 0))
                \o If(OpOf(f.r) \in {"if_apply", "apply", "apply0"} /\ f.A = 0 /\ f.ni # 0,
                      V("C04", idx, f.r, "listed actions ran while actions are disabled", f.ni, 0))
                \o If(OpOf(f.r) \in {"apply", "apply0"} /\ f.A = 1 /\ f.ni # D!IaCalled(Nodes[f.r].p, 0, OpOf(f.r) = "apply0"),
                      V("C04", idx, f.r, "not exactly the listed actions up to the first false were called", f.ni, 0))
                \o If(f.iv = 2 /\ (ev.v # 0 \/ ev.o # f.o), V("C04", idx, f.r, "listed action returned false but the match was not turned into a failure at its start", ev.v, ev.o))
                \* control_action (family 8): the action-side end hook that corresponds to the result
                \o If(f.af = 8 /\ f.ph3 # (IF ev.v = 1 THEN 3 ELSE 4), V("C08", idx, f.r, "control_action: no success / failure hook matching the result", f.ph3, ev.v))
                \* C18
                \o If(ev.e # f.e, V("C18", idx, f.r, "logical end of the input not restored", f.e, ev.e))
                \o If(ev.d # f.d, V("C18", idx, f.r, "depth counter not restored", f.d, ev.d))
                \* C01 / C09 / ...
                \o DenV(f, idx, ev.v, ev.o, 0))
           /\ cnt' = [cnt EXCEPT !.ev = @ + 1, !.den = @ + 1, !.pos = @ + 1,
                                 !.req = @ + (IF ev.v = 0 /\ f.M = 1 THEN 1 ELSE 0),
                                 !.look = @ + (IF OpOf(f.r) \in {"at", "not_at"} THEN 1 ELSE 0)]
           /\ cs' = IF cs.xt = 4 THEN [cs EXCEPT !.tl = TInc(@, f.r, IF ev.v = 1 THEN 2 ELSE 3),
                                                 !.bt = IF rest = <<>> THEN @ ELSE TInc(@, <<rest[Len(rest)].r, f.r>>, IF ev.v = 1 THEN 2 ELSE 3)] ELSE cs

(* xc: an exception passes through the invocation *)
OnExc(ev, idx) ==
   IF stk = <<>> \/ Top.r # ev.r
   THEN /\ verd' = VCap(Append(verd, V("C08", idx, ev.r, "unwinding of a rule that is not the innermost open invocation", 0, 0)))
        /\ cnt' = Bump(cnt, "ev")
        /\ UNCHANGED <<stk, cs, lastx>>
   ELSE LET f == Top
            vis == VisibleF(f) /\ f.dlg = 0
            mx == Max2(f.mx, ev.o)
            rest == Pop
            fuel == ev.x = 4
        IN /\ stk' = IF rest = <<>> THEN rest
                     ELSE LET par == rest[Len(rest)] IN [rest EXCEPT ![Len(rest)] = [par EXCEPT !.mx = Max2(par.mx, mx)]]
           /\ lastx' = [r |-> f.r, v |-> 2, o |-> f.o, mx |-> mx, lvl |-> Len(stk), x |-> ev.x, eo |-> ev.o, tr |-> <<>>, endv |-> -1, endx |-> 0]
           /\ verd' = VCap(verd
                \* (a limit action -- limit_depth, limit_bytes, check_bytes -- raises outside the rule's own attempt: before
                \* start, or after success; then the protocol is already balanced and no unwind is due)
                \* (a must_if control raises from the failure hook: the protocol is balanced by that hook, no unwind is due)
                \o If(~fuel /\ vis /\ HasUnwind(f.cf) /\ f.ph # 5 /\ ~(FrameLim(f) # 0 /\ f.ph \in {0, 3}) /\ ~(f.ph = 4 /\ Known(f.r) /\ D!Rof(f.r, CtxOf(f))),
                      V("C08", idx, f.r, IF f.ph = 2 /\ f.av = 3 THEN "exception thrown by the action: no unwind hook" ELSE "exception passed through without an unwind hook", f.ph, 0))
                \o If(~fuel /\ vis /\ ~HasUnwind(f.cf) /\ f.ph \notin {1, 2} /\ ~(FrameLim(f) # 0 /\ f.ph \in {0, 3}),
                      V("C08", idx, f.r, "exception passed through after an end hook", f.ph, 0))
                \o If(~fuel /\ ~vis /\ f.ph # 0, V("C08", idx, f.r, "hooks fired for a disabled rule", f.ph, 0))
                \o If(~fuel /\ f.af = 8 /\ f.ph3 # 5, V("C08", idx, f.r, "control_action: exception passed without the unwind hook of the action", f.ph3, 0))
                \o If(~fuel /\ ScopeKind(f) > 0 /\ f.sid > 0 /\ (f.sst # 3 \/ f.sss # (IF ScopeKind(f) = 1 /\ f.na > 0 THEN 1 ELSE 0)), V("C13", idx, f.r, "exception: state not destroyed before unwinding, or success called", f.sst, f.sss))
                \o If(ev.e # f.e, V("C18", idx, f.r, "logical end of the input not restored", f.e, ev.e))
                \o If(ev.d # f.d, V("C18", idx, f.r, "depth counter not restored", f.d, ev.d))
                \o (IF fuel THEN <<>> ELSE DenV(f, idx, 2, ev.o, ev.x)))
           /\ cnt' = [cnt EXCEPT !.ev = @ + 1, !.xcs = @ + 1, !.fuel = @ + (IF fuel THEN 1 ELSE 0)]
           /\ cs' = IF cs.xt = 4 THEN [cs EXCEPT !.tl = TInc(@, f.r, 4), !.bt = IF rest = <<>> THEN @ ELSE TInc(@, <<rest[Len(rest)].r, f.r>>, 4)] ELSE cs

-----------------------------------------------------------------------------
(* end: parse() returned or threw (C01, C05) *)
MsgOfN(who, m, n) ==
   IF who = D!XActParseError THEN "action veto"
   ELSE IF who = D!XDepth THEN "maximum parser rule nesting depth exceeded"
   ELSE IF who = D!XBytes THEN "maximum allowed rule consumption reached"
   ELSE IF who = D!XCheck THEN "maximum allowed rule consumption exceeded"
   ELSE IF who < 1 THEN ""
   \* must_if: Errors::message< Rule > -- for raise(); must_if does not override raise_nested(), which keeps normal<>'s message
   ELSE IF MiOf(cs.cf) > 0 /\ Nodes[who].mihas = 1 /\ n = 0 THEN Nodes[who].mimsg
   ELSE IF m = 1 THEN (IF Nodes[who].thas = 1 THEN Nodes[who].tmsg ELSE "parse error matching " \o Nodes[who].s)   \* raise< T >: Control< T >::raise
   ELSE IF Nodes[who].hasmsg = 1 THEN Nodes[who].emsg
   ELSE "parse error matching " \o Nodes[who].dn
MsgOf(who, m) == MsgOfN(who, m, 0)

TopCtx == [A |-> cs.A, lim |-> Len(cs.w), fam |-> cs.af, vis |-> IF FullVis(cs.cf) THEN 1 ELSE 0,
           eol |-> cs.eol, ib |-> cs.ib, il |-> cs.il, ic |-> cs.ic, dep |-> 0, mi |-> MiOf(cs.cf)]

OnEnd(ev, idx) ==
   LET d == IF Known(cs.g) THEN D!Den(cs.g, 0, TopCtx, DenFuel) ELSE D!RO
       fuel == ev.x = 4
       skip == d.k \in {"L", "O"} \/ fuel \/ (ev.x = 5 /\ OverflowTolerated)
       agree == CASE d.k = "T" -> ev.v = 1 /\ ev.o = d.e
                  [] d.k = "F" -> ev.v = 0
                  [] d.k = "X" -> ev.v = 2 /\ ev.x = XClassOf(d.who)
                  [] OTHER -> TRUE
       perr == ev.v = 2 /\ ev.x = 1
   IN /\ verd' = VCap(verd
           \o If(stk # <<>>, V("C08", idx, 0, "run ended with open invocations", Len(stk), 0))
           \o If(~skip /\ ~agree, V(IF d.k = "X" /\ d.who \in D!XLimits THEN "C18" ELSE IF cs.cls >= 2 THEN "C07" ELSE IF cs.xt = 3 THEN "C03" ELSE IF MiOf(cs.cf) > 0 THEN "C05" ELSE IF cs.xt \in {4, 5} THEN "C08" ELSE PropOfRule(cs.g), idx, cs.g, "result of the run differs from the denotation", <<ev.v, ev.o, ev.x>>, d))
           \o If(~skip /\ agree /\ perr /\ d.k = "X" /\ ev.msg # MsgOfN(d.who, d.m, d.n),
                 V("C05", idx, d.who, "parse_error does not name the first failing must/raise rule", ev.msg, MsgOfN(d.who, d.m, d.n)))
           \o If(~skip /\ agree /\ perr /\ d.k = "X" /\ ev.nested # d.n,
                 V("C05", idx, d.who, "nesting of the exception differs", ev.nested, d.n))
           \o If(perr /\ ev.pb - cs.ib >= 0 /\ ev.pb - cs.ib <= Len(cs.w) /\ (ev.pl # D!PosLine(ev.pb - cs.ib, PosCtx) \/ ev.pc # D!PosCol(ev.pb - cs.ib, PosCtx)),
                 V("C05", idx, 0, "line/column of the error position inconsistent with its byte", <<ev.pb, ev.pl, ev.pc>>, 0))
           \o If(perr /\ ev.what # (ev.src \o ":" \o ToString(ev.pl) \o ":" \o ToString(ev.pc) \o ": " \o ev.msg),
                 V("C05", idx, 0, "what() is not source:line:column: message", ev.what, 0))
           \o If(~skip /\ agree /\ perr /\ d.k = "X" /\ d.who > 0 /\ d.n = 0 /\ ~(d.at <= ev.pb - cs.ib),
                 V("C05", idx, d.who, "error position before the start of the failed attempt", ev.pb, d.at))
           \o If(perr /\ (ev.pb - cs.ib < 0 \/ ev.pb - cs.ib > Len(cs.w)), V("C05", idx, 0, "error position outside the input", ev.pb, Len(cs.w)))
           \* C11: a grammar certified by the analysis (zero problems) never loops without progress: neither the real run
           \* (cut by the harness' fuel: events / nesting) nor the denotation (re-entry, or an iteration matching nothing)
           \o If(cnt.anag = cs.g /\ cnt.anap = 0 /\ (fuel \/ d.k = "L"),
                 V("C11", idx, cs.g, "analysis reported no problem for a grammar that loops without progress on this input", <<ev.x, d.k>>, cs.w))
           \o PosV(ev, idx, 0) \o BoundV(ev, idx, 0)
           \o If(ev.d >= 0 /\ ev.d # 0, V("C18", idx, 0, "depth counter not back to its initial value", ev.d, 0))
           \o If(ev.e >= 0 /\ ev.e # Len(cs.w), V("C18", idx, 0, "end of the input not restored", ev.e, Len(cs.w))))
      /\ stk' = <<>>
      /\ lastx' = [NoLast EXCEPT !.tr = IF ev.v = 1 THEN lastx.tr ELSE <<>>, !.endv = ev.v, !.endx = ev.x]
      /\ cnt' = [cnt EXCEPT !.ev = @ + 1, !.ends = @ + 1, !.fuel = @ + (IF fuel THEN 1 ELSE 0), !.acc = @ + ev.acc,
                            !.slices = @ + (IF cs.xt = 3 THEN 1 ELSE 0),
                            !.anacert = @ + (IF cnt.anag = cs.g /\ cnt.anap = 0 THEN 1 ELSE 0),
                            !.analoop = @ + (IF cnt.anag = cs.g /\ (fuel \/ d.k = "L") THEN 1 ELSE 0)]
      /\ UNCHANGED cs

(* tree: what parse_tree::parse built for the case that just ended (C12) *)
\* (Containment of children in their parent and ordering of siblings are consequences of the equality with the
\* derivation wherever they hold at all: nodes created inside a succeeding and-predicate legitimately extend beyond
\* the span of the enclosing nodes, so no separate containment guard is evaluated.)
OnTree(ev, idx) ==
   LET fuel == lastx.endx = 4 IN
   /\ verd' = VCap(verd
        \o If(~fuel /\ (ev.null = 0) # (lastx.endv = 1), V("C12", idx, cs.g, "parse_tree::parse returns a tree exactly when the plain parse succeeds", <<ev.null, ev.x>>, lastx.endv))
        \o If(~fuel /\ (ev.x # 0) # (lastx.endv = 2), V("C12", idx, cs.g, "parse_tree::parse throws exactly when the plain parse throws", ev.x, <<lastx.endv, lastx.endx>>))
        \o If(~fuel /\ ev.null = 0 /\ lastx.endv = 1 /\ ev.nodes # lastx.tr,
              V("C12", idx, cs.g, "tree is not the surviving derivation of the selected rules (order, nesting, spans, transformers)", ev.nodes, lastx.tr))
        )
   /\ cnt' = Bump(Bump(cnt, "tree"), "ev")
   /\ UNCHANGED <<stk, cs, lastx>>

(* cst csu cfa cuw: the action-side hooks of contrib/control_action.hpp (action family 8, C08).  Action< Rule >::match takes
   over in normal< Rule >::match for every rule, whatever its control's visibility and the apply mode: start before the
   rule's attempt (and its control's start hook), then exactly one of success / failure after match() returned (after the
   control's success / failure hook) or unwind when an exception passes (after the control's unwind hook). *)
OnCa(ev, idx) ==
   IF stk = <<>> \/ Top.r # ev.r
   THEN /\ verd' = VCap(Append(verd, V("C08", idx, ev.r, "control_action hook for a rule that is not the innermost open invocation", ev.k, 0)))
        /\ cnt' = Bump(cnt, "ev")
        /\ UNCHANGED <<stk, cs, lastx>>
   ELSE LET f == Top
            vis == VisibleF(f)
            ok == CASE ev.k = "cst" -> f.ph3 = 0 /\ f.ph = 0 /\ f.kids = 0 /\ ev.o = f.o
                    [] ev.k = "csu" -> f.ph3 = 1 /\ (IF vis THEN f.ph = 3 ELSE f.ph = 0)
                    [] ev.k = "cfa" -> f.ph3 = 1 /\ (IF vis THEN f.ph = 4 ELSE f.ph = 0)
                    [] ev.k = "cuw" -> f.ph3 = 1 /\ (IF vis /\ HasUnwind(f.cf) THEN f.ph = 5 ELSE TRUE)
        IN /\ stk' = [stk EXCEPT ![Len(stk)] = [f EXCEPT !.ph3 = CASE ev.k = "cst" -> 1 [] ev.k = "csu" -> 3 [] ev.k = "cfa" -> 4 [] OTHER -> 5]]
           /\ verd' = VCap(verd \o If(f.af # 8, V("C08", idx, ev.r, "control_action hook without a control_action", ev.k, f.af))
                                \o If(~ok, V("C08", idx, ev.r, "control_action hook out of order", ev.k, <<f.ph3, f.ph>>))
                                \o PosV(ev, idx, ev.r))
           /\ cnt' = Bump(Bump(cnt, "hook"), "ev")
           /\ UNCHANGED <<cs, lastx>>

(* cov: what pegtl::coverage< Rule, Action, Control >() reported for the run that was just observed (C08).  The observer saw
   every invocation of every rule -- Control< Rule >::match is the seam, whatever the control's visibility -- so it knows
   the counters the coverage state must have arrived at: per rule and per (parent, child) branch start = number of
   invocations, success / failure / unwind = how they ended, raise = calls of Control< Rule >::raise. *)
OnCov(ev, idx) ==
   LET R == ev.rules   B == ev.br
       ruleOff == \E i \in 1..Len(R) : R[i][1] > 0 /\ <<R[i][2], R[i][3], R[i][4], R[i][5], R[i][6]>> # TGet(cs.tl, R[i][1])
       ruleMissing == \E r \in DOMAIN cs.tl : ~\E i \in 1..Len(R) : R[i][1] = r
       ruleSum == \E i \in 1..Len(R) : R[i][2] # R[i][3] + R[i][4] + R[i][5]
       brOff == \E i \in 1..Len(B) : B[i][1] > 0 /\ B[i][2] > 0 /\
                   LET t == TGet(cs.bt, <<B[i][1], B[i][2]>>) IN <<B[i][3], B[i][4], B[i][5], B[i][6]>> # <<t[1], t[2], t[3], t[4]>>
       brMissing == \E k \in DOMAIN cs.bt : ~\E i \in 1..Len(B) : <<B[i][1], B[i][2]>> = k
       brSum == \E i \in 1..Len(B) : B[i][3] # B[i][4] + B[i][5] + B[i][6]
   IN /\ verd' = VCap(verd
           \o If(stk # <<>>, V("C08", idx, 0, "coverage reported while invocations are open", Len(stk), 0))
           \o If(ruleOff, V("C08", idx, 0, "coverage counters of a rule differ from the invocations observed", R, cs.tl))
           \o If(ruleMissing, V("C08", idx, 0, "a rule that was invoked has no coverage entry", R, DOMAIN cs.tl))
           \o If(ruleSum, V("C08", idx, 0, "coverage: start # success + failure + unwind for a rule", R, 0))
           \o If(brOff, V("C08", idx, 0, "coverage counters of a branch differ from the invocations observed", B, cs.bt))
           \o If(brMissing, V("C08", idx, 0, "a branch that was taken has no coverage entry", B, DOMAIN cs.bt))
           \o If(brSum, V("C08", idx, 0, "coverage: start # success + failure + unwind for a branch", B, 0)))
      /\ cnt' = Bump(Bump(cnt, "cov"), "ev")
      /\ UNCHANGED <<stk, cs, lastx>>

OnOther(ev, idx) ==
   \* (a crash while an incremental / file input is in use is about what that input class did with the bytes: C07)
   /\ verd' = VCap(IF ev.k = "crash" THEN Append(verd, V(IF cs.cls >= 2 THEN "C07" ELSE "C03", idx, 0, "harness process crashed (signal, sanitizer report or terminate)", ev.why, 0))
                   \* C03: the contract has no action for an access outside the window: it is a verdict
                   ELSE IF ev.k = "oob" THEN Append(verd, V("C03", idx, IF stk = <<>> THEN 0 ELSE Top.r,
                                                          IF ev.kind = 0 THEN "peek at or beyond the end of the available data" ELSE "bump beyond the end of the available data",
                                                          ev.n, ev.avail))
                   ELSE verd)
   /\ cnt' = IF ev.k = "rd" THEN Bump(Bump(cnt, "rd"), "ev")
             ELSE IF ev.k = "ana" THEN [cnt EXCEPT !.ev = @ + 1, !.ana = @ + 1, !.anag = ev.g, !.anap = ev.p]   \* what analyze< g >() reported
             ELSE Bump(cnt, "ev")
   /\ UNCHANGED <<stk, cs, lastx>>

Step(ev, idx) ==
   CASE ev.k = "en"   -> OnEnter(ev, idx)
     [] ev.k = "ex"   -> OnExit(ev, idx)
     [] ev.k \in {"st", "su", "fa", "uw"} -> OnHook(ev, idx)
     [] ev.k \in {"ap", "a0"} -> OnApply(ev, idx)
     [] ev.k \in {"ia", "i0"} -> OnIa(ev, idx)
     [] ev.k \in {"sc", "ss", "sd"} -> OnState(ev, idx)
     [] ev.k = "xc"   -> OnExc(ev, idx)
     [] ev.k = "ra"   -> OnRaise(ev, idx)
     [] ev.k = "case" -> OnCase(ev, idx)
     [] ev.k = "end"  -> OnEnd(ev, idx)
     [] ev.k = "tree" -> OnTree(ev, idx)
     [] ev.k = "cov"  -> OnCov(ev, idx)
     [] ev.k \in {"cst", "csu", "cfa", "cuw"} -> OnCa(ev, idx)
     [] OTHER         -> OnOther(ev, idx)

=============================================================================
