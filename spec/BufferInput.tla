----------------------------- MODULE BufferInput -----------------------------
(***************************************************************************)
(* Operational model of tao::pegtl::buffer_input (buffer_input.hpp) with a *)
(* reader that may legally return fewer bytes than requested ("similar to  *)
(* other read()-style functions ... Reaching the end of the input MUST be  *)
(* the only reason for the reader to return zero", Inputs-and-Parsing.md). *)
(*                                                                         *)
(* Offsets are positions in the stream of N bytes:                         *)
(*   bs  stream offset of the first byte of the buffer (m_buffer)          *)
(*   cur stream offset of the cursor (m_current)                           *)
(*   end stream offset behind the last buffered byte (m_end) = bytes read  *)
(* The client is arbitrary: it may require, bump within what it was shown, *)
(* rewind to a position saved since the last discard, and discard.         *)
(*                                                                         *)
(* Properties: C03 (window and reader bounds) and C07 (refinement of the   *)
(* memory view: size( n ) shows min( n, bytes left ) unless the buffer is  *)
(* too small, in which case the only other outcome is the overflow error). *)
(***************************************************************************)
EXTENDS Integers, Sequences, FiniteSets, TLC

CONSTANTS N,        \* length of the stream
          Maximum,  \* constructor argument
          Chunk,    \* template argument
          MaxReq,   \* largest amount a client requests
          Loop      \* TRUE: require() calls the reader until the amount is buffered or it returns 0
                    \* FALSE: require() calls the reader once (the code before the fix)

VARIABLES bs, cur, end, saved, pc, amt, shown, ovf, sched

vars == <<bs, cur, end, saved, pc, amt, shown, ovf, sched>>
Cap == Maximum + Chunk
Min2(a, b) == IF a <= b THEN a ELSE b
Max2(a, b) == IF a >= b THEN a ELSE b

Init == /\ bs = 0 /\ cur = 0 /\ end = 0
        /\ saved = {}          \* cursors the client may still rewind to
        /\ pc = "idle"         \* idle | reading
        /\ amt = 0             \* amount of the require() in progress
        /\ shown = 0           \* what the last completed size( n ) returned
        /\ ovf = FALSE
        /\ sched = <<>>        \* history: what the reader returned, call by call

\* void require( amount )
RequireStart(n) ==
   /\ pc = "idle" /\ ~ovf
   /\ amt' = n
   /\ IF cur + n <= end
      THEN /\ shown' = end - cur /\ pc' = "idle" /\ UNCHANGED <<ovf>>
      ELSE IF (cur - bs) + n > Cap
      THEN /\ ovf' = TRUE /\ pc' = "idle" /\ UNCHANGED shown          \* throw std::overflow_error
      ELSE /\ pc' = "reading" /\ UNCHANGED <<shown, ovf>>
   /\ UNCHANGED <<bs, cur, end, saved, sched>>

\* m_end += m_reader( m_end, min( free_after_end, max( amount - occupied, Chunk ) ) )
ReadLen == Min2(Cap - (end - bs), Max2(amt - (end - cur), Chunk))
Read ==
   /\ pc = "reading"
   /\ \E k \in (IF end = N THEN {0} ELSE 1..Min2(ReadLen, N - end)) :
        /\ end' = end + k
        /\ sched' = Append(sched, k)
        /\ IF Loop /\ k # 0 /\ cur + amt > end + k
           THEN /\ pc' = "reading" /\ UNCHANGED shown
           ELSE /\ pc' = "idle" /\ shown' = (end + k) - cur
   /\ UNCHANGED <<bs, cur, saved, amt, ovf>>

Bump(k) == /\ pc = "idle" /\ ~ovf /\ k >= 1 /\ k <= Min2(shown, end - cur)
           /\ cur' = cur + k /\ shown' = shown - k
           /\ UNCHANGED <<bs, end, saved, pc, amt, ovf, sched>>
Save == /\ pc = "idle" /\ ~ovf /\ saved' = saved \cup {cur}
        /\ UNCHANGED <<bs, cur, end, pc, amt, shown, ovf, sched>>
Rewind == /\ pc = "idle" /\ ~ovf
          /\ \E s \in saved : s <= cur /\ cur' = s /\ shown' = 0
          /\ UNCHANGED <<bs, end, saved, pc, amt, ovf, sched>>
\* void discard(): only where no rewinding to before it can occur
Discard == /\ pc = "idle" /\ ~ovf
           /\ saved' = {}
           /\ bs' = IF cur - bs > Chunk THEN cur ELSE bs
           /\ UNCHANGED <<cur, end, pc, amt, shown, ovf, sched>>

Next == \/ \E n \in 1..MaxReq : RequireStart(n)
        \/ Read
        \/ \E k \in 1..MaxReq : Bump(k)
        \/ Save \/ Rewind \/ Discard

Spec == Init /\ [][Next]_vars
\* the history of reader results multiplies states without adding behaviour: hidden from the fingerprint
View == <<bs, cur, end, saved, pc, amt, shown, ovf>>

-----------------------------------------------------------------------------
\* C03: the window stays inside the buffer, the reader is never asked for more than fits, nor for nothing
Bounds == /\ 0 <= bs /\ bs <= cur /\ cur <= end /\ end <= N
          /\ end - bs <= Cap
          /\ pc = "reading" => (ReadLen >= 1 /\ ReadLen <= Cap - (end - bs))

\* C07: a completed size( n ) shows what a memory input would show (unless it overflowed);
\* evaluated in the step that completes a require(): enough is shown
Completed == [][ (pc = "reading" /\ pc' = "idle") => (end' - cur' >= Min2(amt, N - cur')) ]_vars
\* overflow only when the request really does not fit
OverflowOnlyIfTooSmall == ovf => (cur - bs) + amt > Cap

-----------------------------------------------------------------------------
\* Reader schedules for replay into the real buffer_input (spec -> code): every way a reader may legally deliver
\* a stream of n bytes in pieces of 1..3 bytes.
RECURSIVE SumSeq(_)
SumSeq(q) == IF q = <<>> THEN 0 ELSE q[1] + SumSeq(Tail(q))
Schedules(n) == {q \in UNION {[1..m -> 1..3] : m \in 0..n} : SumSeq(q) = n}
=============================================================================
