---------------------------- MODULE TraceMachine ----------------------------
(***************************************************************************)
(* Lock-step comparison of the operational model with recorded runs of the *)
(* real code: for every case of a trace the machine is started on the same *)
(* grammar table, input and configuration, and every event it emits must   *)
(* be the next recorded event (kind, rule, modes, cursor, result).         *)
(*                                                                         *)
(* This keeps PegMachine honest -- so that what MC_PegCore establishes for *)
(* every grammar of its space is about the design of the actual code.  It  *)
(* is implementation-shaped on purpose, therefore a mismatch is reported   *)
(* as DRIFT (model and code took different steps), never as a violation of *)
(* a property: those come from PegContract only.                           *)
(* Environment: TRACE, TABLE, OUT.                                         *)
(***************************************************************************)
EXTENDS Integers, Sequences, FiniteSets, TLC, Json, IOUtils

VARIABLES l,                               \* next trace line
          w, cfg, fr, cur, ret, exc, q, done, aux,   \* PegMachine
          skip,                            \* the rest of the current case is not compared
          steps,                           \* machine steps in the current case
          log                              \* [cases, compared, skipped, drift (list, capped)]

vars == <<l, w, cfg, fr, cur, ret, exc, q, done, aux, skip, steps, log>>

Tr         == ndJsonDeserialize(IOEnv.TRACE)
TableNodes == JsonDeserialize(IOEnv.TABLE).nodes

M == INSTANCE PegMachine WITH Nodes <- TableNodes, W <- w, Cfg <- cfg

MachineOps == {"seq", "sor", "star", "star_partial", "plus", "opt", "partial", "at", "not_at", "must", "try_catch_return_false", "raise",
               "if_must", "opt_must", "until", "rep", "rep_opt", "rep_min_max", "if_then_else", "enable", "disable", "action",
               "try_catch_raise_nested", "apply", "apply0", "if_apply", "strict", "star_strict", "control", "state", "rematch"}
RECURSIVE Reach(_, _)
Reach(todo, seen) ==
   IF todo = {} THEN seen
   ELSE LET x == CHOOSE y \in todo : TRUE
            ks == TableNodes[x].ikids
        IN Reach((todo \ {x}) \cup ({ks[i] : i \in DOMAIN ks} \ (seen \cup {x})), seen \cup {x})
\* the machine models memory inputs (plain and with the depth counter), the action families 0..7 and the operators above
Supported(ev) ==
   /\ ev.cls \in {0, 1} /\ ev.xt \in {0, 3, 4, 5} /\ ev.af \in 0..8
   /\ \A x \in Reach({ev.g}, {}) :
         /\ (TableNodes[x].iop \in MachineOps \/ M!IsAtom(x))
         /\ (TableNodes[x].iop \in {"strict", "star_strict"} => M!RestOf(TableNodes[x].ikids) # {})
         \* (internal rules enter the table when the code first calls them: without them the model has nothing to call)
         /\ (TableNodes[x].iop = "rep_min_max" /\ TableNodes[x].ip[2] > 0 => M!NotAtOf(TableNodes[x].ikids[1]) # {})
         /\ (TableNodes[x].iop = "raise" => TableNodes[x].ip # <<>> /\ TableNodes[x].ip[1] > 0)
         /\ M!AKindOf(x, ev.af) \in 0..7

Init == /\ l = 1 /\ w = <<>> /\ cfg = [g |-> 1, A |-> 1, M |-> 1, af |-> 0, cf |-> 1, eol |-> 3, ib |-> 0, il |-> 1, ic |-> 1, cls |-> 0]
        /\ fr = <<>> /\ cur = 0 /\ ret = -1 /\ exc = M!NoExc /\ q = <<>> /\ done = -1 /\ aux = [nsid |-> 0, end |-> 0, dep |-> 0, rm |-> 0]
        /\ skip = TRUE /\ steps = 0
        /\ log = [cases |-> 0, compared |-> 0, skipped |-> 0, limited |-> 0, drift |-> <<>>, ndrift |-> 0]

\* does the emitted event e coincide with the recorded event r in everything the model determines?
Same(e, r) ==
   /\ e.k = r.k
   /\ CASE e.k = "en" -> e.r = r.r /\ e.A = r.A /\ e.M = r.M /\ e.o = r.o /\ e.af = r.af /\ e.cf = r.cf /\ e.s = r.s /\ e.e = r.e /\ e.d = r.d
        [] e.k = "ex" -> e.r = r.r /\ e.v = r.v /\ e.o = r.o /\ e.e = r.e /\ e.d = r.d
        [] e.k = "xc" -> e.r = r.r /\ e.x = r.x /\ e.o = r.o /\ e.e = r.e /\ e.d = r.d
        [] e.k \in {"st", "su", "fa", "uw", "ra"} -> e.r = r.r /\ e.o = r.o /\ e.cf = r.cf /\ e.e = r.e
        [] e.k = "ap" -> e.r = r.r /\ e.o = r.o /\ e.eo = r.eo /\ e.v = r.v /\ e.af = r.af /\ e.s = r.s
        [] e.k = "a0" -> e.r = r.r /\ e.v = r.v /\ e.af = r.af /\ e.s = r.s
        [] e.k = "sc" -> e.sid = r.sid /\ e.o = r.o /\ e.os = r.os
        [] e.k = "ss" -> e.sid = r.sid /\ e.o = r.o /\ e.os = r.os
        [] e.k = "sd" -> e.sid = r.sid
        [] e.k \in {"cst", "csu", "cfa", "cuw"} -> e.r = r.r /\ e.o = r.o
        [] e.k = "ia" -> e.n = r.n /\ e.o = r.o /\ e.eo = r.eo /\ e.v = r.v
        [] e.k = "i0" -> e.n = r.n /\ e.v = r.v
        [] OTHER -> FALSE

Drift(what, e) == [log EXCEPT !.ndrift = @ + 1,
                              !.drift = IF Len(@) < 20 THEN Append(@, [line |-> l, what |-> what, model |-> e, code |-> Tr[l]]) ELSE @]

Next ==
   /\ l <= Len(Tr)
   /\ LET ev == Tr[l] IN
      IF ev.k = "case"
      THEN \* a new run: start the machine on the same grammar, input and configuration
           /\ w' = ev.w
           /\ cfg' = [g |-> ev.g, A |-> ev.A, M |-> ev.M, af |-> ev.af, cf |-> ev.cf, eol |-> ev.eol, ib |-> ev.ib, il |-> ev.il, ic |-> ev.ic, cls |-> ev.cls]
           /\ fr' = <<M!Frame(ev.g, ev.A, ev.M, ev.af, ev.cf)>>
           /\ cur' = 0 /\ ret' = -1 /\ exc' = M!NoExc /\ q' = <<>> /\ done' = -1 /\ steps' = 0 /\ aux' = [nsid |-> 0, end |-> Len(ev.w), dep |-> 0, rm |-> 0]
           /\ skip' = ~Supported(ev)
           /\ log' = [log EXCEPT !.cases = @ + 1, !.skipped = @ + (IF Supported(ev) THEN 0 ELSE 1)]
           /\ l' = l + 1
      ELSE IF skip \/ ev.k \in {"cov", "fin"}       \* (records that are not steps of the run: the coverage report, the end marker)
      THEN l' = l + 1 /\ UNCHANGED <<w, cfg, fr, cur, ret, exc, q, done, aux, skip, steps, log>>
      ELSE IF q # <<>>
      THEN IF Same(Head(q), ev)
           THEN M!Emit /\ l' = l + 1 /\ UNCHANGED <<w, cfg, skip, steps, log>>
           ELSE IF ev.k = "xc" /\ ev.x = 4
           THEN \* the harness (not PEGTL) cut the run short: its event budget or nesting limit; nothing left to compare
                /\ log' = [log EXCEPT !.limited = @ + 1] /\ skip' = TRUE /\ l' = l + 1
                /\ UNCHANGED <<w, cfg, fr, cur, ret, exc, q, done, aux, steps>>
           ELSE /\ log' = Drift("event", Head(q)) /\ skip' = TRUE /\ l' = l + 1
                /\ UNCHANGED <<w, cfg, fr, cur, ret, exc, q, done, aux, steps>>
      ELSE IF done = -1
      THEN IF steps > 4000
           THEN /\ log' = Drift("model does not terminate", 0) /\ skip' = TRUE
                /\ UNCHANGED <<l, w, cfg, fr, cur, ret, exc, q, done, aux, steps>>
           ELSE IF ~ENABLED M!MStep
           THEN \* safety net: the model has no step (a rule it would have to call is not in the table)
                /\ log' = Drift("model is stuck", 0) /\ skip' = TRUE
                /\ UNCHANGED <<l, w, cfg, fr, cur, ret, exc, q, done, aux, steps>>
           ELSE M!MStep /\ steps' = steps + 1 /\ UNCHANGED <<l, w, cfg, skip, log>>
      ELSE \* the model's run is over: the next recorded event must be the end of the real run, with the same result
           /\ IF ev.k = "end" /\ ev.v = done /\ ev.o = cur
              THEN log' = [log EXCEPT !.compared = @ + 1]
              ELSE log' = Drift("end", [v |-> done, o |-> cur])
           /\ skip' = TRUE /\ l' = l + 1
           /\ UNCHANGED <<w, cfg, fr, cur, ret, exc, q, done, aux, steps>>

TraceSpec == Init /\ [][Next]_vars

Export == IF l = Len(Tr) + 1
          THEN TLCSet(1, [verdicts |-> <<>>, cnt |-> [ev |-> Len(Tr), cases |-> log.cases], lines |-> Len(Tr), open |-> 0, machine |-> log])
          ELSE TRUE
Accepted == JsonSerialize(IOEnv.OUT, TLCGet(1))
=============================================================================
