----------------------------- MODULE ObsContract -----------------------------
(***************************************************************************)
(* Validators for function observations ("obs" records, DESIGN.md 2.3):    *)
(* each record is one call of a real PEGTL helper or rule with its inputs  *)
(* and what it returned; the declarative definitions below say what it     *)
(* must have returned.                                                     *)
(*                                                                         *)
(*   lines    C19  at / begin_of_line / end_of_line / line_at              *)
(*   u8app unj unu unx unhex unc   C17  unescape helpers                   *)
(*   raw      C16  raw_string (Lua long brackets)                          *)
(*   int      C15  integer rules and conversions                           *)
(*   cls u8 u16 u32 uint istr   C10  character classes and encodings       *)
(***************************************************************************)
EXTENDS Integers, Sequences, FiniteSets, TLC, Bitwise

\* the denotational definitions, over the bytes of one record
P(w) == INSTANCE PegDen WITH Nodes <- <<>>, W <- w

V(prop, idx, f, why, a, b) == [p |-> prop, case |-> idx, i |-> idx, r |-> 0, why |-> why, a |-> a, b |-> b, f |-> f, st |-> <<>>]
If(cond, v) == IF cond THEN <<v>> ELSE <<>>

MaxOf(S) == CHOOSE x \in S : \A y \in S : y <= x
MinOf(S) == CHOOSE x \in S : \A y \in S : x <= y

Ctx(eol, lim) == [A |-> 1, lim |-> lim, fam |-> 0, vis |-> 0, eol |-> eol, ib |-> 0, il |-> 1, ic |-> 1, dep |-> 0, mi |-> 0]

-----------------------------------------------------------------------------
(* C19: the source line of a position *)
Lines(r, idx) ==
   LET w == r.w  n == Len(w)  k == r.k
       ch == P(w)!EolCh(r.eol)
       S == {i \in 1..k : w[i] = ch}
       bol == IF S = {} THEN 0 ELSE MaxOf(S)                         \* just after the last eol character before k
       EolfAt(q) == q = n \/ P(w)!EolEnd(q, Ctx(r.eol, n)) >= 0       \* eolf matches at q
       eolq == MinOf({q \in k..n : EolfAt(q)})
       inside(x) == x >= 0 /\ x <= n
   IN If(r.pb # r.ib + k, V("C19", idx, "lines", "position byte is not initial byte + consumed", r.pb, r.ib + k))
      \o If(~inside(r.at) \/ ~inside(r.bl) \/ (r.el # -99999 /\ ~inside(r.el)),
            V("C19", idx, "lines", "helper yields a pointer outside the input data", <<r.at, r.bl, r.el>>, n))
      \o If(r.at # k, V("C19", idx, "lines", "at() does not point to the byte at the position", r.at, k))
      \o If(r.bl # bol, V("C19", idx, "lines", "begin_of_line() is not the start of the line containing the position", r.bl, bol))
      \o If(r.el # -99999 /\ r.el # eolq, V("C19", idx, "lines", "end_of_line() is not the end of the line containing the position", r.el, eolq))
      \o If(r.lo # -99999 /\ (r.lo # bol \/ r.ln # eolq - bol), V("C19", idx, "lines", "line_at() is not exactly the line", <<r.lo, r.ln>>, <<bol, eolq - bol>>))

-----------------------------------------------------------------------------
(* C17: UTF-8 encoding of a scalar value (Unicode 3.9, Table 3-6) *)
Utf8Enc(cp) ==
   IF cp <= 127 THEN <<cp>>
   ELSE IF cp <= 2047 THEN <<192 + cp \div 64, 128 + (cp % 64)>>
   ELSE IF cp <= 65535 THEN <<224 + cp \div 4096, 128 + ((cp \div 64) % 64), 128 + (cp % 64)>>
   ELSE <<240 + cp \div 262144, 128 + ((cp \div 4096) % 64), 128 + ((cp \div 64) % 64), 128 + (cp % 64)>>
IsSurrogate(cp) == cp >= 55296 /\ cp <= 57343
IsHigh(u) == u >= 55296 /\ u <= 56319
IsLow(u)  == u >= 56320 /\ u <= 57343

U8App(r, idx) ==
   LET tooLarge == r.hi > 16           \* cp >= 0x110000
       cp == r.hi * 65536 + r.lo
       valid == ~tooLarge /\ ~IsSurrogate(cp)
   IN If(valid /\ (r.ok # 1 \/ r.out # Utf8Enc(cp)), V("C17", idx, "u8app", "scalar value not encoded as its well-formed UTF-8", <<r.hi, r.lo, r.out>>, Utf8Enc(cp)))
      \o If(~valid /\ (r.ok # 0 \/ r.out # <<>>), V("C17", idx, "u8app", "surrogate or value above U+10FFFF not rejected without appending", <<r.hi, r.lo>>, r.out))
      \o If(r.kept # 1, V("C17", idx, "u8app", "existing string content modified", 0, 0))

\* JSON-style escapes: consecutive \uXXXX units; a high surrogate directly followed by a low one is one code point
RECURSIVE UnJ(_, _)
UnJ(us, i) ==   \* <<ok, bytes>>
   IF i > Len(us) THEN <<TRUE, <<>>>>
   ELSE IF IsHigh(us[i]) /\ i < Len(us) /\ IsLow(us[i+1])
        THEN LET rest == UnJ(us, i + 2) IN
             <<rest[1], Utf8Enc((us[i] - 55296) * 1024 + (us[i+1] - 56320) + 65536) \o rest[2]>>
   ELSE IF IsSurrogate(us[i]) THEN <<FALSE, <<>>>>
   ELSE LET rest == UnJ(us, i + 1) IN <<rest[1], Utf8Enc(us[i]) \o rest[2]>>
UnJCheck(r, idx) ==
   LET e == UnJ(r.units, 1) IN
   If(e[1] /\ (r.ok # 1 \/ r.out # e[2]), V("C17", idx, "unj", "escape sequence not decoded to the expected UTF-8", <<r.units, r.ok, r.out>>, e[2]))
   \o If(~e[1] /\ r.ok = 1, V("C17", idx, "unj", "lone surrogate accepted", r.units, r.out))

\* the example's JSON string unescaping (src/example/pegtl/json_unescape.hpp): tokens of a string literal -- kind 1 a literal
\* byte, kind 2 a simple escape (value: the character behind the backslash), kind 3 a \uXXXX unit; consecutive units form
\* one run that is decoded like UnJ
EscMap(c) == CASE c = 98 -> 8 [] c = 102 -> 12 [] c = 110 -> 10 [] c = 114 -> 13 [] c = 116 -> 9 [] OTHER -> c      \* b f n r t; " \ / stand for themselves
RECURSIVE RunEnd(_, _)
RunEnd(tk, i) == IF i < Len(tk) /\ tk[i + 1] = 3 THEN RunEnd(tk, i + 1) ELSE i
RECURSIVE JDec(_, _, _)
JDec(tk, tv, i) ==
   IF i > Len(tk) THEN <<TRUE, <<>>>>
   ELSE IF tk[i] = 3
   THEN LET j == RunEnd(tk, i)
            e == UnJ(SubSeq(tv, i, j), 1)
            rest == JDec(tk, tv, j + 1)
        IN <<e[1] /\ rest[1], e[2] \o rest[2]>>
   ELSE LET rest == JDec(tk, tv, i + 1) IN <<rest[1], <<IF tk[i] = 1 THEN tv[i] ELSE EscMap(tv[i])>> \o rest[2]>>
JStr(r, idx) ==
   LET e == JDec(r.tk, r.tv, 1) IN
   If(e[1] /\ (r.ok # 1 \/ r.out # e[2]), V("C17", idx, "jstr", "JSON string not unescaped to the expected bytes", <<r.tk, r.tv, r.ok, r.out>>, e[2]))
   \o If(~e[1] /\ r.ok = 1, V("C17", idx, "jstr", "JSON string with a lone surrogate escape accepted", <<r.tk, r.tv>>, r.out))

HexVal(b) == IF b >= 48 /\ b <= 57 THEN b - 48 ELSE IF b >= 97 /\ b <= 102 THEN b - 87 ELSE b - 55
\* value of a hex digit string as 16-bit limbs <<v3, v2, v1, v0>> of the low 64 bits
RECURSIVE HexLimbs(_, _, _)
HexLimbs(ds, i, acc) ==
   IF i > Len(ds) THEN acc
   ELSE LET v == HexVal(ds[i])
            s0 == acc[4] * 16 + v   s1 == acc[3] * 16 + s0 \div 65536
            s2 == acc[2] * 16 + s1 \div 65536   s3 == acc[1] * 16 + s2 \div 65536
        IN HexLimbs(ds, i + 1, <<s3 % 65536, s2 % 65536, s1 % 65536, s0 % 65536>>)
Limbs(ds) == HexLimbs(ds, 1, <<0, 0, 0, 0>>)
UnHex(r, idx) ==
   LET l == Limbs(r.digits)
       want == IF r.bits = 8 THEN <<0, 0, 0, l[4] % 256>>
               ELSE IF r.bits = 16 THEN <<0, 0, 0, l[4]>>
               ELSE IF r.bits = 32 THEN <<0, 0, l[3], l[4]>> ELSE l
   IN If(<<r.v3, r.v2, r.v1, r.v0>> # want, V("C17", idx, "unhex", "hexadecimal digits not mapped to their value", <<r.digits, r.v3, r.v2, r.v1, r.v0>>, want))
UnU(r, idx) ==
   LET l == Limbs(r.digits)
       hi == l[3]  lo == l[4]
       wide == Len(r.digits) > 8
       valid == hi <= 16 /\ ~IsSurrogate(hi * 65536 + lo)
   IN IF wide THEN <<>>
      ELSE If(valid /\ (r.ok # 1 \/ r.out # Utf8Enc(hi * 65536 + lo)), V("C17", idx, "unu", "escaped code point not encoded as its UTF-8", r.digits, r.out))
           \o If(~valid /\ r.ok = 1, V("C17", idx, "unu", "invalid escaped code point accepted", r.digits, r.out))
UnX(r, idx) == If(r.out # <<Limbs(r.digits)[4] % 256>>, V("C17", idx, "unx", "hex escape not mapped to its byte", r.digits, r.out))
UnC(r, idx) ==
   LET S == {i \in 1..Len(r.q) : r.q[i] = r.c} IN
   If(S = {} \/ r.out # <<r.r[MinOf(S)]>>, V("C17", idx, "unc", "escape character not mapped to the documented value", r.c, r.out))

-----------------------------------------------------------------------------
(* C16: raw_string *)
EX(op, kids, p) == [op |-> op, kids |-> kids, p |-> p, id |-> 0]
RawKids(var) ==
   IF var \in {0, 1} THEN <<>>
   ELSE IF var = 2 THEN <<EX("any", <<>>, <<>>)>>
   ELSE IF var = 3 THEN <<EX("not_one", <<>>, <<120>>)>>
   ELSE IF var = 5 THEN <<EX("any", <<>>, <<>>), EX("any", <<>>, <<>>)>>
   ELSE <<EX("one", <<>>, <<97>>), EX("opt", <<EX("one", <<>>, <<98>>)>>, <<>>)>>
RawP(var) == IF var = 1 THEN <<123, 42, 125>> ELSE <<91, 61, 93>>
Raw(r, idx) ==
   LET w == r.w  n == Len(w)
       c == Ctx(r.eol, n)
       d == P(w)!DenX(EX("raw_string", RawKids(r.var), RawP(r.var)), 0, c, 40)
       ms == P(w)!RawOpenLen(0, n, RawP(r.var)[1], RawP(r.var)[2])
       cs == P(w)!RawContentStart(0, ms, c)
   IN IF d.k \notin {"T", "F"} THEN <<>>
      ELSE If(d.k = "T" /\ (r.res # 1 \/ r.n # d.e), V("C16", idx, "raw", "long bracket literal not matched through its first closing bracket of the same level", <<r.res, r.n>>, d))
           \o If(d.k = "F" /\ (r.res # 0 \/ r.n # 0), V("C16", idx, "raw", "no matching close: must fail locally without consuming", <<r.res, r.n>>, d))
           \o If(d.k = "T" /\ r.res = 1 /\ (r.calls # 1 \/ r.cb # cs \/ r.ce # d.e - ms),
                 V("C16", idx, "raw", "content is not the text between the brackets (minus one leading line ending)", <<r.calls, r.cb, r.ce>>, <<cs, d.e - ms>>))
           \o If(r.res # 1 /\ r.calls # 0, V("C16", idx, "raw", "content action called although the rule did not match", r.calls, 0))

-----------------------------------------------------------------------------
(* C15: integer rules; values as decimal digit sequences *)
Dig(s) == [i \in 1..Len(s) |-> s[i] - 48]            \* ASCII digits -> 0..9
MaxU(bits) == IF bits = 8 THEN <<2,5,5>> ELSE IF bits = 16 THEN <<6,5,5,3,5>> ELSE IF bits = 32 THEN <<4,2,9,4,9,6,7,2,9,5>>
              ELSE <<1,8,4,4,6,7,4,4,0,7,3,7,0,9,5,5,1,6,1,5>>
MaxS(bits) == IF bits = 8 THEN <<1,2,7>> ELSE IF bits = 16 THEN <<3,2,7,6,7>> ELSE IF bits = 32 THEN <<2,1,4,7,4,8,3,6,4,7>>
              ELSE <<9,2,2,3,3,7,2,0,3,6,8,5,4,7,7,5,8,0,7>>
MinSAbs(bits) == IF bits = 8 THEN <<1,2,8>> ELSE IF bits = 16 THEN <<3,2,7,6,8>> ELSE IF bits = 32 THEN <<2,1,4,7,4,8,3,6,4,8>>
                 ELSE <<9,2,2,3,3,7,2,0,3,6,8,5,4,7,7,5,8,0,8>>
StartsWith(s, t) == Len(s) >= Len(t) /\ SubSeq(s, 1, Len(t)) = t
IntRec(r, idx) ==
   LET w == r.w  n == Len(w)
       c == Ctx(3, n)
       signed == StartsWith(r.rule, "signed")
       syn == P(w)!DenX(IF signed THEN P(w)!ESigned ELSE P(w)!EUnsigned, 0, c, 40)
       hasSign == n > 0 /\ w[1] \in {43, 45}
       neg == n > 0 /\ w[1] = 45
       numeral == IF syn.k = "T" THEN P(w)!Digits(IF signed /\ hasSign THEN 1 ELSE 0, syn.e) ELSE <<>>
       isMax == StartsWith(r.rule, "maximum_rule")
       limit == IF isMax THEN Dig(r.max)
                ELSE IF r.sgn = 0 THEN MaxU(r.bits)
                ELSE IF neg THEN MinSAbs(r.bits) ELSE MaxS(r.bits)
       fits == P(w)!DecLeq(numeral, limit)
       wantStored == IF neg /\ numeral # <<0>> THEN <<45>> \o [i \in 1..Len(numeral) |-> numeral[i] + 48]
                     ELSE [i \in 1..Len(numeral) |-> numeral[i] + 48]
       syntaxOnly == r.rule \in {"unsigned_rule", "signed_rule"}
       failsLocally == r.rule = "maximum_rule"      \* maximum_rule: overflow is a local failure
   IN IF syn.k = "F"
      THEN If(r.res # 0 \/ r.n # 0, V("C15", idx, "int", "not a numeral: must fail locally without consuming", <<r.rule, r.res, r.n>>, w))
      ELSE IF syntaxOnly
      THEN If(r.res # 1 \/ r.n # syn.e, V("C15", idx, "int", "numeral syntax not matched exactly", <<r.rule, r.res, r.n>>, syn.e))
      ELSE IF fits
      THEN If(r.res # 1 \/ r.n # syn.e, V("C15", idx, "int", "representable numeral not accepted", <<r.rule, r.res, r.n>>, w))
           \o If(r.res = 1 /\ ~failsLocally /\ r.stored # wantStored, V("C15", idx, "int", "stored value is not the exact value of the numeral", <<r.rule, r.stored>>, wantStored))
      ELSE IF failsLocally
      THEN If(r.res # 0 \/ r.n # 0, V("C15", idx, "int", "value above Maximum: bounded rule must fail locally without consuming", <<r.rule, r.res, r.n>>, w))
      ELSE If(r.res # 2, V("C15", idx, "int", "overflow not reported: a wrapped or truncated value was stored", <<r.rule, r.res, r.stored>>, w))

-----------------------------------------------------------------------------
(* C10: character classes and encodings *)
P0 == INSTANCE PegDen WITH Nodes <- <<>>, W <- <<>>
ClsRanges(rule) ==
   CASE rule \in P0!ClassOps  -> P0!ClassRanges(rule)
     [] rule = "any"          -> <<0, 255>>
     \* RFC 5234 core rules (ABNF strings are case insensitive, hence HEXDIG accepts a-f as well)
     [] rule = "abnf_ALPHA"   -> <<65, 90, 97, 122>>
     [] rule = "abnf_DIGIT"   -> <<48, 57>>
     [] rule = "abnf_HEXDIG"  -> <<48, 57, 65, 70, 97, 102>>
     [] rule = "abnf_VCHAR"   -> <<33, 126>>
     [] rule = "abnf_CTL"     -> <<0, 31, 127>>
     [] rule = "abnf_WSP"     -> <<32, 32, 9>>
     [] rule = "abnf_BIT"     -> <<48, 49>>
     [] rule = "abnf_CHAR"    -> <<1, 127>>
     [] rule = "abnf_OCTET"   -> <<0, 255>>
     [] rule = "abnf_SP"      -> <<32>>
     [] rule = "abnf_HTAB"    -> <<9>>
     [] rule = "abnf_DQUOTE"  -> <<34>>
     [] rule = "abnf_CR"      -> <<13>>
     [] rule = "abnf_LF"      -> <<10>>
Cls(r, idx) ==
   LET want == {b \in 0..255 : P0!InRanges(b, ClsRanges(r.rule))}
       got == {r.acc[i] : i \in DOMAIN r.acc}
   IN If(got # want, V("C10", idx, "cls", "class rule does not accept exactly its documented bytes", <<r.rule, got \ want, want \ got>>, 0))
      \o If(r.bad # 0 \/ r.empty # 0, V("C10", idx, "cls", "class rule does not consume exactly one byte when and only when it matches", <<r.rule, r.bad, r.empty>>, 0))

U8Rec(r, idx) ==
   LET d == P(r.w)!U8(0, Len(r.w))
       okv == d[2] > 0
   IN If(okv /\ (r.n # d[2] \/ r.hi * 65536 + r.lo # d[1] \/ r.rn # d[2]), V("C10", idx, "u8", "well-formed UTF-8 unit not decoded to its scalar value and length", <<r.w, r.n, r.hi, r.lo, r.rn>>, d))
      \o If(~okv /\ (r.n # 0 \/ r.rn # 0), V("C10", idx, "u8", "ill-formed, truncated, overlong, surrogate or out-of-range UTF-8 accepted", <<r.w, r.n, r.hi, r.lo>>, 0))

\* accept sets of all three- and four-byte sequences, per lead byte (Unicode Table 3-7)
U8Agg(r, idx) ==
   LET L == r.lead
       lo == IF L = 224 THEN 2048 ELSE IF L <= 239 THEN (L - 224) * 4096 ELSE IF L = 240 THEN 65536 ELSE (L - 240) * 262144
       hi == IF L = 237 THEN 55295 ELSE IF L <= 239 THEN (L - 224) * 4096 + 4095 ELSE IF L = 244 THEN 1114111 ELSE (L - 240) * 262144 + 262143
       none == L > 244
       cnt == IF none THEN 0 ELSE hi - lo + 1
   IN If(r.badlen # 0, V("C10", idx, "u8agg", "multi-byte unit accepted with the wrong length", L, r.badlen))
      \o If(none /\ (r.mn # -1 \/ r.cnt \notin {0, -1}), V("C10", idx, "u8agg", "lead byte above F4 accepted", L, <<r.cnt, r.mn, r.mx>>))
      \o If(~none /\ r.cnt # -1 /\ (r.cnt # cnt \/ r.mn # lo \/ r.mx # hi), V("C10", idx, "u8agg", "accept set of a lead byte is not its Table 3-7 range", <<L, r.cnt, r.mn, r.mx>>, <<cnt, lo, hi>>))
      \o If(~none /\ r.cnt = -1 /\ (r.mn < lo \/ r.mx > hi \/ r.mn > lo + 2 \/ r.mx < hi - 2), V("C10", idx, "u8agg", "sampled accept range of a lead byte outside its Table 3-7 range", <<L, r.mn, r.mx>>, <<lo, hi>>))

Unit16(w, i, be) == IF be = 1 THEN w[i] * 256 + w[i+1] ELSE w[i+1] * 256 + w[i]
U16Rec(r, idx) ==
   LET w == r.w  n == Len(w)
       u1 == IF n >= 2 THEN Unit16(w, 1, r.be) ELSE -1
       u2 == IF n >= 4 THEN Unit16(w, 3, r.be) ELSE -1
       want == IF n < 2 THEN <<0, 0>>
               ELSE IF ~IsSurrogate(u1) THEN <<2, u1>>
               ELSE IF IsHigh(u1) /\ n >= 4 /\ IsLow(u2) THEN <<4, (u1 - 55296) * 1024 + (u2 - 56320) + 65536>>
               ELSE <<0, 0>>
   IN If(r.n # want[1] \/ r.rn # want[1] \/ (want[1] > 0 /\ r.hi * 65536 + r.lo # want[2]),
         V("C10", idx, "u16", "UTF-16 unit(s) not decoded as the standard prescribes", <<w, r.be, r.n, r.hi, r.lo>>, want))

U32Rec(r, idx) ==
   LET w == r.w  n == Len(w)
       hi == IF n < 4 THEN 0 ELSE IF r.be = 1 THEN w[1] * 256 + w[2] ELSE w[4] * 256 + w[3]
       lo == IF n < 4 THEN 0 ELSE IF r.be = 1 THEN w[3] * 256 + w[4] ELSE w[2] * 256 + w[1]
       valid == n >= 4 /\ hi <= 16 /\ ~(hi = 0 /\ lo >= 55296 /\ lo <= 57343)
   IN If(valid /\ (r.n # 4 \/ r.rn # 4 \/ r.hi # hi \/ r.lo # lo), V("C10", idx, "u32", "scalar value not accepted as one 4-byte unit", <<w, r.be, r.n, r.hi, r.lo>>, <<hi, lo>>))
      \o If(~valid /\ (r.n # 0 \/ r.rn # 0), V("C10", idx, "u32", "surrogate, value above U+10FFFF or truncated unit accepted", <<w, r.be, r.n>>, 0))
U32Agg(r, idx) ==
   If(r.nranges # 2 \/ r.ranges # <<<<0, 0, 0, 55295>>, <<0, 57344, 16, 65535>>>>,
      V("C10", idx, "u32agg", "accept set over all 32-bit units is not {0..D7FF, E000..10FFFF}", r.ranges, r.nranges))

\* binary rules: values as four 16-bit limbs, most significant first
LimbsOfBytes(w, nb, be) ==
   LET B(i) == IF be = 1 THEN w[i] ELSE w[nb + 1 - i]                   \* i-th most significant byte
       full == [i \in 1..8 |-> IF i > 8 - nb THEN B(i - (8 - nb)) ELSE 0]
   IN <<full[1] * 256 + full[2], full[3] * 256 + full[4], full[5] * 256 + full[6], full[7] * 256 + full[8]>>
LimbAnd(x, m) == <<x[1] & m[1], x[2] & m[2], x[3] & m[3], x[4] & m[4]>>
RECURSIVE LimbLeqAt(_, _, _)
LimbLeqAt(x, y, i) == IF i > 4 THEN TRUE ELSE IF x[i] < y[i] THEN TRUE ELSE IF x[i] > y[i] THEN FALSE ELSE LimbLeqAt(x, y, i + 1)
LimbLeq(x, y) == LimbLeqAt(x, y, 1)
UIntRec(r, idx) ==
   LET nb == r.bits \div 8
       have == Len(r.w) >= nb
       v == IF have THEN LimbAnd(LimbsOfBytes(r.w, nb, r.be), r.mask) ELSE <<0, 0, 0, 0>>
       hit == CASE r.kind = "one"     -> v = r.a
                [] r.kind = "not_one" -> v # r.a
                [] r.kind = "range"   -> LimbLeq(r.a, v) /\ LimbLeq(v, r.b)
                [] r.kind = "any"     -> TRUE
       want == have /\ hit
   IN If((want /\ (r.res # 1 \/ r.n # nb)) \/ (~want /\ (r.res # 0 \/ r.n # 0)),
         V("C10", idx, "uint", "binary rule does not test the endian-adjusted, masked value of a complete unit", <<r.kind, r.bits, r.be, r.mask, r.a, r.b, r.w, r.res, r.n>>, v))

IStr(r, idx) ==
   LET pat == r.pat  w == r.w
       eq(i) == IF P0!IsAlphaByte(pat[i]) THEN P0!Fold(w[i]) = P0!Fold(pat[i]) ELSE w[i] = pat[i]
       want == Len(w) >= Len(pat) /\ \A i \in 1..Len(pat) : eq(i)
   IN If((want /\ (r.res # 1 \/ r.n # Len(pat))) \/ (~want /\ (r.res # 0 \/ r.n # 0)),
         V("C10", idx, "istr", "case-insensitive string does not fold exactly the ASCII letters", <<w, r.res, r.n>>, pat))

-----------------------------------------------------------------------------
(* C14 / C20: the shipped grammars against the RFC languages *)
J(w) == INSTANCE Json8259 WITH W <- w
R(w) == INSTANCE Uri3986 WITH W <- w
JsonRec(r, idx) ==
   LET want == J(r.w)!IsJsonText IN
   If(r.res \notin {0, 1}, V("C14", idx, "json", "the JSON grammar threw", r.w, r.res))
   \o If(want /\ r.res = 0, V("C14", idx, "json", "RFC 8259 JSON text rejected", r.w, r.res))
   \o If(~want /\ r.res = 1, V("C14", idx, "json", "accepted although not an RFC 8259 JSON text", r.w, r.res))
UriRec(r, idx) ==
   LET want == R(r.w)!Derivable(r.rule) IN
   If(r.res = 3, V("C20", idx, "uri", "the URI grammar threw something other than a parse_error", <<r.rule, r.w>>, r.res))
   \o If(want /\ r.res # 1, V("C20", idx, "uri", "string derivable from the RFC 3986 production rejected", <<r.rule, r.w>>, r.res))
   \o If(~want /\ r.res = 1, V("C20", idx, "uri", "accepted although not derivable from the RFC 3986 production", <<r.rule, r.w>>, r.res))

-----------------------------------------------------------------------------
Check(r, idx) ==
   CASE r.f = "lines" -> Lines(r, idx)
     [] r.f = "u8app" -> U8App(r, idx)
     [] r.f = "unj"   -> UnJCheck(r, idx)
     [] r.f = "jstr"  -> JStr(r, idx)
     [] r.f = "unu"   -> UnU(r, idx)
     [] r.f = "unx"   -> UnX(r, idx)
     [] r.f = "unhex" -> UnHex(r, idx)
     [] r.f = "unc"   -> UnC(r, idx)
     [] r.f = "raw"   -> Raw(r, idx)
     [] r.f = "int"   -> IntRec(r, idx)
     [] r.f = "cls"   -> Cls(r, idx)
     [] r.f = "u8"    -> U8Rec(r, idx)
     [] r.f = "u8agg" -> U8Agg(r, idx)
     [] r.f = "u16"   -> U16Rec(r, idx)
     [] r.f = "u32"   -> U32Rec(r, idx)
     [] r.f = "u32agg" -> U32Agg(r, idx)
     [] r.f = "uint"  -> UIntRec(r, idx)
     [] r.f = "istr"  -> IStr(r, idx)
     [] r.f = "json"  -> JsonRec(r, idx)
     [] r.f = "uri"   -> UriRec(r, idx)
     [] OTHER -> <<V("C00", idx, r.f, "unknown observation record", 0, 0)>>
=============================================================================
