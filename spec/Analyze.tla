------------------------------- MODULE Analyze -------------------------------
(***************************************************************************)
(* Operational model of the grammar analysis (contrib/analyze.hpp and      *)
(* contrib/analyze_traits.hpp), transcribed step by step:                  *)
(*                                                                         *)
(*   Traits(x, self)  the analysis abstraction of a rule: one of the four  *)
(*                    types any / opt / seq / sor and a list of sub-rules   *)
(*                    (analyze_traits< Name, rule_t >), where star and plus *)
(*                    refer back to themselves by Name                     *)
(*   Work(x, accum, stack)  analyze_cycles_impl::work() with its on-stack  *)
(*                    guard set, the accumulated-consumption flag and the  *)
(*                    short-circuiting loops over the sub-rules            *)
(*   Problems(root)   analyze< Grammar >(): work() started once from every *)
(*                    rule of the grammar                                  *)
(*                                                                         *)
(* A grammar is a sequence Rules of expressions (see PegDen: E / Ref); an  *)
(* entry of the analysis is identified by the expression itself, exactly   *)
(* as the code identifies it by the (demangled) type.                      *)
(*                                                                         *)
(* VisitAll = FALSE transcribes the sor case as it is in the pinned tree   *)
(* ( a = a && work( ... ) : later alternatives are not visited once one    *)
(* does not consume ), VisitAll = TRUE the repaired loop.                  *)
(***************************************************************************)
EXTENDS Integers, Sequences, FiniteSets, TLC

CONSTANTS Rules,     \* Rules[n] = body of named rule n
          VisitAll

EX(op, kids, p) == [op |-> op, kids |-> kids, p |-> p, id |-> 0]
RefX(n)         == [op |-> "ref", kids |-> <<>>, p |-> <<n>>, id |-> n]

\* analyze_traits.hpp: type and sub-rules; self is the Name the traits are instantiated for
RECURSIVE Traits(_, _)
Traits(x, self) ==
   LET k == x.kids  T(t, s) == [t |-> t, subs |-> s] IN
   CASE x.op = "ref"     -> Traits(Rules[x.p[1]], x)                   \* a named rule: the traits of its rule_t, Name = the rule
     [] x.op \in {"any", "one", "failure", "eol", "raise"} -> T("any", <<>>)
     [] x.op \in {"success", "eof", "bof", "bol", "eolf", "discard", "require", "everything", "apply", "apply0"} -> T("opt", <<>>)
     [] x.op = "seq"     -> IF k = <<>> THEN T("opt", <<>>) ELSE T("seq", k)
     [] x.op = "sor"     -> IF k = <<>> THEN T("any", <<>>) ELSE T("sor", k)
     [] x.op \in {"opt", "at", "not_at", "rep_opt", "partial"} -> T("opt", k)
     [] x.op \in {"star", "star_partial"} -> T("opt", Append(k, self))                    \* opt< Rules..., Name >
     [] x.op = "plus"    -> T("seq", Append(k, EX("opt", <<self>>, <<>>)))                \* seq< Rules..., opt< Name > >
     [] x.op \in {"must", "state", "action", "control", "enable", "disable", "try_catch_return_false", "try_catch_raise_nested", "if_must"} -> T("seq", k)
     [] x.op = "opt_must" -> T("opt", k)
     [] x.op = "if_apply" -> Traits(k[1], k[1])
     [] x.op = "if_then_else" -> T("sor", <<EX("seq", <<k[1], k[2]>>, <<>>), k[3]>>)     \* sor< seq< Cond, Then >, Else >
     [] x.op = "until"   -> IF Len(k) = 1 THEN Traits(k[1], k[1])                          \* analyze_traits< Name, Cond::rule_t >
                            ELSE T("seq", <<EX("star", SubSeq(k, 2, Len(k)), <<>>), k[1]>>)   \* seq< star< Rules... >, Cond >
     [] x.op = "rep"     -> IF x.p[1] # 0 THEN T("seq", k) ELSE T("opt", k)
     [] x.op = "rep_min_max" -> IF x.p[1] # 0 THEN T("seq", k) ELSE T("opt", k)
     [] x.op = "rematch" -> T("sor", <<k[1], EX("sor", [i \in 1..(Len(k) - 1) |-> EX("seq", <<k[i + 1], EX("any", <<>>, <<>>)>>, <<>>)], <<>>)>>)

\* bool work( entry, accum ): <<result, problems found>>; stk is m_stack (names of the entries being worked on)
RECURSIVE Work(_, _, _), WorkAcc(_, _, _, _, _), WorkSor(_, _, _, _, _)
\* a = a || work( find( r ), accum || a )   over the sub-rules, from index i
WorkAcc(subs, i, a, accum, stk) ==
   IF i > Len(subs) THEN <<a, 0>>
   ELSE IF a THEN WorkAcc(subs, i + 1, a, accum, stk)            \* short-circuit: work() is not called
   ELSE LET r == Work(subs[i], accum \/ a, stk)
            rest == WorkAcc(subs, i + 1, a \/ r[1], accum, stk)
        IN <<rest[1], r[2] + rest[2]>>
\* a = a && work( find( r ), accum )         (VisitAll: a = work( ... ) && a)
WorkSor(subs, i, a, accum, stk) ==
   IF i > Len(subs) THEN <<a, 0>>
   ELSE IF ~a /\ ~VisitAll THEN WorkSor(subs, i + 1, a, accum, stk)
   ELSE LET r == Work(subs[i], accum, stk)
            rest == WorkSor(subs, i + 1, a /\ r[1], accum, stk)
        IN <<rest[1], r[2] + rest[2]>>
Work(x, accum, stk) ==
   IF x \in stk
   THEN <<accum, IF accum THEN 0 ELSE 1>>                          \* re-entered: a problem unless something was consumed on the way
   ELSE LET tr == Traits(x, x)
            s2 == stk \cup {x}
        IN CASE tr.t = "any" -> LET r == WorkAcc(tr.subs, 1, FALSE, accum, s2) IN <<TRUE, r[2]>>
             [] tr.t = "opt" -> LET r == WorkAcc(tr.subs, 1, FALSE, accum, s2) IN <<FALSE, r[2]>>
             [] tr.t = "seq" -> WorkAcc(tr.subs, 1, FALSE, accum, s2)
             [] tr.t = "sor" -> WorkSor(tr.subs, 1, TRUE, accum, s2)

\* the entries of the analysis: everything reachable from the root through the traits' sub-rules
RECURSIVE Entries(_, _)
Entries(todo, done) ==
   IF todo = {} THEN done
   ELSE LET x == CHOOSE y \in todo : TRUE
            subs == Traits(x, x).subs
            new == {subs[i] : i \in DOMAIN subs} \ (done \cup {x})
        IN Entries((todo \ {x}) \cup new, done \cup {x})

RECURSIVE SumProblems(_)
SumProblems(S) == IF S = {} THEN 0 ELSE LET x == CHOOSE y \in S : TRUE IN Work(x, FALSE, {})[2] + SumProblems(S \ {x})
\* std::size_t analyze< Grammar >()
Problems(root) == SumProblems(Entries({RefX(root)}, {}))
=============================================================================
