------------------------------ MODULE Json8259 ------------------------------
(***************************************************************************)
(* RFC 8259 as a set-valued recogniser, independent of PEG ordering.       *)
(*                                                                         *)
(* For a production X, X(i) is the SET of offsets j such that W[i+1..j]    *)
(* is derivable from X (all of them, not the longest or the first): "/" is *)
(* union, concatenation is relational composition, repetition is the       *)
(* reflexive-transitive closure.  W is a JSON text iff Len(W) \in Text(0). *)
(* Strings must be well-formed UTF-8 (RFC 8259 section 8.1).               *)
(***************************************************************************)
EXTENDS Integers, Sequences, FiniteSets

CONSTANT W   \* sequence of bytes

U == INSTANCE PegDen WITH Nodes <- <<>>, W <- W    \* only for the UTF-8 well-formedness table U!U8

N == Len(W)
B(i) == W[i + 1]                                    \* byte at offset i (0 <= i < N)
Has(i, S) == i < N /\ B(i) \in S
Then(S, F(_)) == UNION {F(j) : j \in S}             \* relational composition

Byte(i, S) == IF Has(i, S) THEN {i + 1} ELSE {}
Lit(i, s) == IF i + Len(s) <= N /\ \A k \in 1..Len(s) : W[i + k] = s[k] THEN {i + Len(s)} ELSE {}

\* ws = *( %x20 / %x09 / %x0A / %x0D )
WS(i) == {j \in i..N : \A k \in i..(j - 1) : B(k) \in {32, 9, 10, 13}}

\* structural characters:  ws %xNN ws
Struct(i, c) == Then(Then(WS(i), LAMBDA j : Byte(j, {c})), WS)

DIGIT == 48..57
Digits1(i) == {j \in (i + 1)..N : \A k \in i..(j - 1) : B(k) \in DIGIT}          \* 1*DIGIT
\* int = zero / ( digit1-9 *DIGIT )
IntP(i) == Byte(i, {48}) \cup (IF Has(i, 49..57) THEN Digits1(i) ELSE {})
\* frac = decimal-point 1*DIGIT
Frac(i) == Then(Byte(i, {46}), Digits1)
\* exp = e [ minus / plus ] 1*DIGIT
Exp(i) == Then(Then(Byte(i, {101, 69}), LAMBDA j : {j} \cup Byte(j, {45, 43})), Digits1)
\* number = [ minus ] int [ frac ] [ exp ]
Number(i) ==
   LET a == {i} \cup Byte(i, {45})
       b == Then(a, IntP)
       c == b \cup Then(b, Frac)
   IN c \cup Then(c, Exp)

\* char = unescaped / escape ( %x22 / %x5C / %x2F / %x62 / %x66 / %x6E / %x72 / %x74 / %x75 4HEXDIG )
\* unescaped = %x20-21 / %x23-5B / %x5D-10FFFF  (as well-formed UTF-8)
HEXDIG == (48..57) \cup (65..70) \cup (97..102)
Char(i) ==
   IF i >= N THEN {}
   ELSE IF B(i) = 92
   THEN (IF Has(i + 1, {34, 92, 47, 98, 102, 110, 114, 116}) THEN {i + 2} ELSE {})
        \cup (IF Has(i + 1, {117}) /\ i + 6 <= N /\ \A k \in 2..5 : B(i + k) \in HEXDIG THEN {i + 6} ELSE {})
   ELSE LET u == U!U8(i, N) IN
        IF u[2] > 0 /\ u[1] >= 32 /\ u[1] # 34 /\ u[1] # 92 THEN {i + u[2]} ELSE {}
RECURSIVE Chars(_)
Chars(i) == {i} \cup Then(Char(i), Chars)                                        \* *char
\* string = quotation-mark *char quotation-mark
String(i) == Then(Then(Byte(i, {34}), Chars), LAMBDA j : Byte(j, {34}))

RECURSIVE Value(_, _), Elements(_, _), Members(_, _)
\* value = false / null / true / object / array / number / string
Value(i, d) ==
   IF d = 0 THEN {}
   ELSE Lit(i, <<102, 97, 108, 115, 101>>) \cup Lit(i, <<110, 117, 108, 108>>) \cup Lit(i, <<116, 114, 117, 101>>)
        \cup Number(i) \cup String(i)
        \* array = begin-array [ value *( value-separator value ) ] end-array
        \cup Then(Struct(i, 91), LAMBDA j : Then({j} \cup Elements(j, d - 1), LAMBDA k : Struct(k, 93)))
        \* object = begin-object [ member *( value-separator member ) ] end-object
        \cup Then(Struct(i, 123), LAMBDA j : Then({j} \cup Members(j, d - 1), LAMBDA k : Struct(k, 125)))
\* value *( value-separator value )
Elements(i, d) == LET v == Value(i, d) IN v \cup Then(Then(v, LAMBDA j : Struct(j, 44)), LAMBDA k : Elements(k, d))
\* member = string name-separator value
Member(i, d) == Then(Then(String(i), LAMBDA j : Struct(j, 58)), LAMBDA k : Value(k, d))
Members(i, d) == LET m == Member(i, d) IN m \cup Then(Then(m, LAMBDA j : Struct(j, 44)), LAMBDA k : Members(k, d))

\* JSON-text = ws value ws
Text == Then(Then(WS(0), LAMBDA j : Value(j, N + 2)), WS)
IsJsonText == N \in Text
=============================================================================
