------------------------------- MODULE TraceObs -------------------------------
(***************************************************************************)
(* Validation of observation records (code -> spec): every line of the     *)
(* ndjson file is judged by ObsContract!Check.  Environment: TRACE, OUT.   *)
(***************************************************************************)
EXTENDS Integers, Sequences, TLC, Json, IOUtils

VARIABLES l, verd, cnt
vars == <<l, verd, cnt>>

Tr == ndJsonDeserialize(IOEnv.TRACE)
O  == INSTANCE ObsContract

MaxV == 300
VCap(v) == IF Len(v) > MaxV THEN SubSeq(v, 1, MaxV) ELSE v

TInit == l = 1 /\ verd = <<>> /\ cnt = [ev |-> 0, cases |-> 0, bad |-> 0]
TNext == /\ l <= Len(Tr)
         /\ LET new == O!Check(Tr[l], l) IN
            /\ verd' = VCap(verd \o new)
            /\ cnt' = [ev |-> cnt.ev + 1, cases |-> cnt.cases + 1, bad |-> cnt.bad + (IF new = <<>> THEN 0 ELSE 1)]
         /\ l' = l + 1
TraceSpec == TInit /\ [][TNext]_vars

Export == IF l = Len(Tr) + 1
          THEN TLCSet(1, [verdicts |-> verd, cnt |-> cnt, lines |-> Len(Tr), open |-> 0])
          ELSE TRUE
Accepted == /\ TLCGet("stats").diameter - 1 = Len(Tr)
            /\ JsonSerialize(IOEnv.OUT, TLCGet(1))
=============================================================================
