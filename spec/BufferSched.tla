----------------------------- MODULE BufferSched -----------------------------
(* Writes the reader schedules of BufferInput for streams of 0..5 bytes as JSON (environment: OUT).  *)
EXTENDS Integers, Sequences, FiniteSets, TLC, Json, IOUtils
B == INSTANCE BufferInput WITH N <- 0, Maximum <- 0, Chunk <- 1, MaxReq <- 1, Loop <- TRUE,
                               bs <- 0, cur <- 0, end <- 0, saved <- {}, pc <- "idle", amt <- 0, shown <- 0, ovf <- FALSE, sched <- <<>>
ASSUME JsonSerialize(IOEnv.OUT, [n \in 1..6 |-> B!Schedules(n - 1)])
=============================================================================
