------------------------------- MODULE Uri3986 -------------------------------
(***************************************************************************)
(* RFC 3986, Appendix A ("Collected ABNF for URI"), as a set-valued        *)
(* recogniser: X(i) is the set of all offsets j such that W[i+1..j] is     *)
(* derivable from X.  "/" is union, concatenation is relational            *)
(* composition, repetition is closure -- no ordering, no longest match.    *)
(* W is derivable from a production X iff Len(W) \in X(0).                 *)
(***************************************************************************)
EXTENDS Integers, Sequences, FiniteSets

CONSTANT W   \* sequence of bytes

N == Len(W)
B(i) == W[i + 1]
Has(i, S) == i < N /\ B(i) \in S
Then(S, F(_)) == UNION {F(j) : j \in S}
Opt(S, F(_)) == S \cup Then(S, F)
Byte(i, S) == IF Has(i, S) THEN {i + 1} ELSE {}
Ch(i, c) == Byte(i, {c})

ALPHA  == (65..90) \cup (97..122)
DIGIT  == 48..57
HEXDIG == DIGIT \cup (65..70) \cup (97..102)          \* ABNF strings are case insensitive
Unreserved == ALPHA \cup DIGIT \cup {45, 46, 95, 126}                      \* - . _ ~
SubDelims  == {33, 36, 38, 39, 40, 41, 42, 43, 44, 59, 61}                 \* ! $ & ' ( ) * + , ; =

\* pct-encoded = "%" HEXDIG HEXDIG
Pct(i) == IF Has(i, {37}) /\ Has(i + 1, HEXDIG) /\ Has(i + 2, HEXDIG) THEN {i + 3} ELSE {}

\* one element of the repeated character classes
Elem(kind, i) ==
   CASE kind = "pchar"    -> Byte(i, Unreserved \cup SubDelims \cup {58, 64}) \cup Pct(i)      \* pchar
     [] kind = "userinfo" -> Byte(i, Unreserved \cup SubDelims \cup {58}) \cup Pct(i)
     [] kind = "regname"  -> Byte(i, Unreserved \cup SubDelims) \cup Pct(i)
     [] kind = "segnc"    -> Byte(i, Unreserved \cup SubDelims \cup {64}) \cup Pct(i)          \* segment-nz-nc
     [] kind = "query"    -> Byte(i, Unreserved \cup SubDelims \cup {58, 64, 47, 63}) \cup Pct(i)
     [] kind = "scheme"   -> Byte(i, ALPHA \cup DIGIT \cup {43, 45, 46})
     [] kind = "future"   -> Byte(i, Unreserved \cup SubDelims \cup {58})
     [] kind = "hexdig"   -> Byte(i, HEXDIG)
     [] kind = "digit"    -> Byte(i, DIGIT)
RECURSIVE Close(_, _)
Close(kind, S) == LET T == UNION {Elem(kind, j) : j \in S} \ S IN IF T = {} THEN S ELSE Close(kind, S \cup T)
Star(kind, i)  == Close(kind, {i})                                   \* *elem
Plus(kind, i)  == UNION {Star(kind, j) : j \in Elem(kind, i)}          \* 1*elem

\* dec-octet = DIGIT / %x31-39 DIGIT / "1" 2DIGIT / "2" %x30-34 DIGIT / "25" %x30-35
DecOctet(i) ==
   Byte(i, DIGIT)
   \cup Then(Byte(i, 49..57), LAMBDA j : Byte(j, DIGIT))
   \cup Then(Then(Ch(i, 49), LAMBDA j : Byte(j, DIGIT)), LAMBDA j : Byte(j, DIGIT))
   \cup Then(Then(Ch(i, 50), LAMBDA j : Byte(j, 48..52)), LAMBDA j : Byte(j, DIGIT))
   \cup Then(Then(Ch(i, 50), LAMBDA j : Ch(j, 53)), LAMBDA j : Byte(j, 48..53))
Dot(i) == Ch(i, 46)
\* IPv4address = dec-octet "." dec-octet "." dec-octet "." dec-octet
IPv4address(i) ==
   Then(Then(Then(Then(Then(Then(DecOctet(i), Dot), DecOctet), Dot), DecOctet), Dot), DecOctet)

\* h16 = 1*4HEXDIG
H16(i) == {j \in (i + 1)..(IF i + 4 <= N THEN i + 4 ELSE N) : \A k \in i..(j - 1) : B(k) \in HEXDIG}
Colon(i) == Ch(i, 58)
H16C(i) == Then(H16(i), Colon)                                      \* h16 ":"
\* ls32 = ( h16 ":" h16 ) / IPv4address
LS32(i) == Then(H16C(i), H16) \cup IPv4address(i)
RECURSIVE RepH16C(_, _)
RepH16C(n, S) == IF n = 0 THEN S ELSE RepH16C(n - 1, Then(S, H16C))     \* n( h16 ":" )
\* [ *k( h16 ":" ) h16 ]
Left(k, i) == {i} \cup UNION {Then(RepH16C(m, {i}), H16) : m \in 0..k}
CC(i) == Then(Colon(i), Colon)                                      \* "::"
IPv6address(i) ==
   Then(RepH16C(6, {i}), LS32)
   \cup Then(RepH16C(5, CC(i)), LS32)
   \cup Then(RepH16C(4, Then(Left(0, i), CC)), LS32)
   \cup Then(RepH16C(3, Then(Left(1, i), CC)), LS32)
   \cup Then(RepH16C(2, Then(Left(2, i), CC)), LS32)
   \cup Then(RepH16C(1, Then(Left(3, i), CC)), LS32)
   \cup Then(Then(Left(4, i), CC), LS32)
   \cup Then(Then(Left(5, i), CC), H16)
   \cup Then(Left(6, i), CC)

\* IPvFuture = "v" 1*HEXDIG "." 1*( unreserved / sub-delims / ":" )
IPvFuture(i) == Then(Then(Then(Byte(i, {118, 86}), LAMBDA j : Plus("hexdig", j)), Dot), LAMBDA j : Plus("future", j))
\* IP-literal = "[" ( IPv6address / IPvFuture ) "]"
IPliteral(i) == Then(Then(Ch(i, 91), LAMBDA j : IPv6address(j) \cup IPvFuture(j)), LAMBDA j : Ch(j, 93))
\* host = IP-literal / IPv4address / reg-name
Host(i) == IPliteral(i) \cup IPv4address(i) \cup Star("regname", i)
\* authority = [ userinfo "@" ] host [ ":" port ]
Authority(i) ==
   LET a == {i} \cup Then(Star("userinfo", i), LAMBDA j : Ch(j, 64))
       h == Then(a, Host)
   IN h \cup Then(Then(h, Colon), LAMBDA j : Star("digit", j))

Slash(i) == Ch(i, 47)
Segment(i) == Star("pchar", i)
SegmentNz(i) == Plus("pchar", i)
SegmentNzNc(i) == Plus("segnc", i)
RECURSIVE SlashSegs(_)
\* *( "/" segment )
SlashSegs(S) == LET T == Then(Then(S, Slash), Segment) \ S IN IF T = {} THEN S ELSE SlashSegs(S \cup T)
PathAbempty(i)  == SlashSegs({i})
PathAbsolute(i) == LET s == Slash(i) IN s \cup SlashSegs(Then(s, SegmentNz))
PathNoscheme(i) == SlashSegs(SegmentNzNc(i))
PathRootless(i) == SlashSegs(SegmentNz(i))
PathEmpty(i)    == {i}

Scheme(i) == Then(Byte(i, ALPHA), LAMBDA j : Star("scheme", j))
Query(i) == Star("query", i)
OptQ(S) == S \cup Then(Then(S, LAMBDA j : Ch(j, 63)), Query)         \* [ "?" query ]
OptF(S) == S \cup Then(Then(S, LAMBDA j : Ch(j, 35)), Query)         \* [ "#" fragment ], fragment has the same characters as query

SlashSlashAuth(i) == Then(Then(Then(Slash(i), Slash), Authority), PathAbempty)
HierPart(i)     == SlashSlashAuth(i) \cup PathAbsolute(i) \cup PathRootless(i) \cup PathEmpty(i)
RelativePart(i) == SlashSlashAuth(i) \cup PathAbsolute(i) \cup PathNoscheme(i) \cup PathEmpty(i)

URI(i)          == OptF(OptQ(Then(Then(Scheme(i), Colon), HierPart)))
AbsoluteURI(i)  == OptQ(Then(Then(Scheme(i), Colon), HierPart))
RelativeRef(i)  == OptF(OptQ(RelativePart(i)))
URIreference(i) == URI(i) \cup RelativeRef(i)

Derivable(rule) ==
   CASE rule = "URI"           -> N \in URI(0)
     [] rule = "URI_reference" -> N \in URIreference(0)
     [] rule = "absolute_URI"  -> N \in AbsoluteURI(0)
     [] rule = "IPv4address"   -> N \in IPv4address(0)
     [] rule = "IPv6address"   -> N \in IPv6address(0)
=============================================================================
