----------------------------- MODULE MC_Analyze -----------------------------
(***************************************************************************)
(* Design-level check of C11: over a space of small grammars, whenever the *)
(* transcribed analysis (Analyze.tla) reports zero problems, the           *)
(* denotation (PegDen.tla) finds no input on which the grammar loops       *)
(* without progress.  Every initial state is one grammar; there are no     *)
(* transitions.                                                            *)
(***************************************************************************)
EXTENDS Integers, Sequences, FiniteSets, TLC

CONSTANTS VisitAll,   \* FALSE: the analysis as in the pinned tree; TRUE: with the repaired sor loop
          TwoRules,   \* FALSE: one rule with a body of depth <= 2; TRUE: two rules with bodies of depth <= 1
          MaxLen      \* inputs: all strings over {a, b} up to this length

VARIABLE g            \* the grammar: a sequence of rule bodies, the last one is the root

EX(op, kids, p) == [op |-> op, kids |-> kids, p |-> p, id |-> 0]
RefX(n)         == [op |-> "ref", kids |-> <<>>, p |-> <<n>>, id |-> n]

Atoms(n) == {EX("one", <<>>, <<97>>), EX("success", <<>>, <<>>), EX("eof", <<>>, <<>>), EX("failure", <<>>, <<>>)} \cup {RefX(i) : i \in 1..n}
Unary  == {"opt", "star", "plus", "at", "not_at"}
Binary == {"seq", "sor"}
Deeper(S) == S \cup {EX(u, <<a>>, <<>>) : u \in Unary, a \in S} \cup {EX(b, <<x, y>>, <<>>) : b \in Binary, x \in S, y \in S}

\* (the body of a named rule is a rule type of its own, never a bare reference: struct R : seq< R > {}; at least)
Body(S) == {b \in S : b.op # "ref"}
Init == IF TwoRules
        THEN g \in {<<b1, b2>> : b1 \in Body(Deeper(Atoms(2))), b2 \in Body(Deeper(Atoms(2)))}
        ELSE g \in {<<b>> : b \in Body(Deeper(Deeper(Atoms(1))))}
Next == UNCHANGED g
Spec == Init /\ [][Next]_g

A == INSTANCE Analyze WITH Rules <- g
NodeOf(b) == [op |-> "expr", x |-> b, kids |-> <<>>, p |-> <<>>, ak |-> 0, vid |-> 0, en |-> 1, lim |-> 0, sw |-> 0]
D(w) == INSTANCE PegDen WITH Nodes <- [i \in DOMAIN g |-> NodeOf(g[i])], W <- w
Ctx(w) == [A |-> 1, lim |-> Len(w), fam |-> 0, vis |-> 1, eol |-> 3, ib |-> 0, il |-> 1, ic |-> 1, dep |-> 0, mi |-> 0]

Inputs == UNION {[1..m -> {97, 98}] : m \in 0..MaxLen}
\* a run that re-enters an open (rule, position) repeats forever; without re-entry at most |rules| * (|w| + 1) rules are
\* open at once, so this fuel makes "L" exactly "loops without progress"
Fuel == Len(g) * (MaxLen + 1) + 2
LoopsOn(w) == D(w)!Den(Len(g), 0, Ctx(w), Fuel).k = "L"

\* C11: zero problems => no input drives the grammar into a loop without progress
Sound == (A!Problems(Len(g)) = 0) => \A w \in Inputs : ~LoopsOn(w)
=============================================================================
