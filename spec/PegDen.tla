------------------------------- MODULE PegDen -------------------------------
(***************************************************************************)
(* Declarative layer: the denotation of a PEGTL grammar.                   *)
(*                                                                         *)
(* Nodes is the grammar table extracted from the compiled rule types       *)
(* (harness/vtrace.hpp + gen/table.py), W the input bytes of the current   *)
(* case.  Den gives, for a rule, a start offset and a context, the outcome *)
(* the PEG formalism (Ford 2004, extended with PEGTL's global failure,     *)
(* vetoing actions and limits) prescribes:                                 *)
(*                                                                         *)
(*    k = "T"  success, input consumed up to offset e                      *)
(*    k = "F"  local failure                                               *)
(*    k = "X"  global failure: who = blamed rule (node id) or a negative   *)
(*             code for exceptions thrown by actions, at = offset where    *)
(*             the blamed attempt began, n = 1 for a nested exception      *)
(*    k = "L"  no progress: the evaluation re-enters itself (left          *)
(*             recursion) or iterates a body that matched the empty string *)
(*    k = "O"  opaque: the table does not describe this rule well enough   *)
(*                                                                         *)
(* Every convenience rule is defined by its documented expansion           *)
(* (doc/Rule-Reference.md, "[Equivalent] to ..."), see Desugar.            *)
(***************************************************************************)
EXTENDS Integers, Sequences, FiniteSets, TLC

CONSTANTS Nodes,   \* sequence of node records, index = node id
          W        \* sequence of bytes 0..255

-----------------------------------------------------------------------------
(* results *)
\* m = 1: the exception was produced by raise< T > itself, its message names T rather than the rule
RT(e)        == [k |-> "T", e |-> e, who |-> 0, at |-> 0, n |-> 0, m |-> 0]
RF           == [k |-> "F", e |-> 0, who |-> 0, at |-> 0, n |-> 0, m |-> 0]
RX(who, at)  == [k |-> "X", e |-> 0, who |-> who, at |-> at, n |-> 0, m |-> 0]
RXT(who, at) == [k |-> "X", e |-> 0, who |-> who, at |-> at, n |-> 0, m |-> 1]
RXN(who, at) == [k |-> "X", e |-> 0, who |-> who, at |-> at, n |-> 1, m |-> 0]
RL           == [k |-> "L", e |-> 0, who |-> 0, at |-> 0, n |-> 0, m |-> 0]
RO           == [k |-> "O", e |-> 0, who |-> 0, at |-> 0, n |-> 0, m |-> 0]

\* exception identities that are not rules
XActParseError == -1   \* parse_error thrown by an action
XActForeign    == -3   \* harness exception, not derived from std::exception
XDepth         == -5   \* limit_depth: "maximum parser rule nesting depth exceeded"
XBytes         == -6   \* limit_bytes: "maximum allowed rule consumption reached"
XCheck         == -7   \* check_bytes: "maximum allowed rule consumption exceeded"
XLimits        == {XDepth, XBytes, XCheck}

-----------------------------------------------------------------------------
(* expressions: records with fields op, kids (sequence of expressions),    *)
(* p (sequence of integers), id (node id, 0 for a synthesised expression)  *)
E(op, kids, p) == [op |-> op, kids |-> kids, p |-> p, id |-> 0]
Ref(n)         == [op |-> "ref", kids |-> <<>>, p |-> <<n>>, id |-> n]
\* (a node with op "expr" carries its body as an expression, field x: used by the design-level configurations)
Lift(n)        == LET nd == Nodes[n] IN
                  IF nd.op = "expr" THEN nd.x
                  ELSE [op |-> nd.op, kids |-> [i \in DOMAIN nd.kids |-> Ref(nd.kids[i])], p |-> nd.p, id |-> n]

ESeq(ks)  == E("seq", ks, <<>>)
ESor(ks)  == E("sor", ks, <<>>)
EStar(ks) == E("star", ks, <<>>)
EOpt(ks)  == E("opt", ks, <<>>)
ENot(ks)  == E("not_at", ks, <<>>)
EMust(ks) == E("must", ks, <<>>)
ERep(n, ks) == E("rep", ks, <<n>>)
ESucc == E("success", <<>>, <<>>)
EFail == E("failure", <<>>, <<>>)
EAny  == E("any", <<>>, <<>>)
EEof  == E("eof", <<>>, <<>>)
EEol  == E("eol", <<>>, <<>>)
EOne(cs)      == E("one", <<>>, cs)
ERange(lo,hi) == E("range", <<>>, <<lo, hi>>)
EString(cs)   == E("string", <<>>, cs)

Tail1(s) == SubSeq(s, 2, Len(s))

-----------------------------------------------------------------------------
(* bytes *)
\* total: an offset outside the data (possible only when an observed logical end is itself wrong) reads as a
\* value no rule accepts, so that the contract reports the bound violation instead of the evaluation failing
By(o)  == IF o >= 0 /\ o < Len(W) THEN W[o + 1] ELSE -1000      \* unsigned value of the byte at offset o
SBy(o) == IF o >= 0 /\ o < Len(W) THEN (IF W[o + 1] > 127 THEN W[o + 1] - 256 ELSE W[o + 1]) ELSE -1000   \* as a (signed) char
SeqSet(s) == {s[i] : i \in DOMAIN s}

Fold(b) == IF b >= 65 /\ b <= 90 THEN b + 32 ELSE b   \* ASCII case folding of a byte
IsAlphaByte(b) == (b >= 65 /\ b <= 90) \/ (b >= 97 /\ b <= 122)

InRanges(v, ps) ==   \* ps = <<lo1,hi1,lo2,hi2,...[,single]>>
   \/ \E i \in 1..(Len(ps) \div 2) : ps[2*i-1] <= v /\ v <= ps[2*i]
   \/ (Len(ps) % 2 = 1 /\ v = ps[Len(ps)])

\* ASCII classes as documented in doc/Rule-Reference.md (ASCII Rules)
ClassRanges(op) ==
   CASE op = "alnum"  -> <<97,122, 65,90, 48,57>>
     [] op = "alpha"  -> <<97,122, 65,90>>
     [] op = "blank"  -> <<32,32, 9,9>>
     [] op = "digit"  -> <<48,57>>
     [] op = "identifier_first" -> <<97,122, 65,90, 95>>
     [] op = "identifier_other" -> <<97,122, 65,90, 48,57, 95>>
     [] op = "lower"  -> <<97,122>>
     [] op = "nul"    -> <<0,0>>
     [] op = "odigit" -> <<48,55>>
     [] op = "print"  -> <<32,126>>
     [] op = "seven"  -> <<0,127>>
     [] op = "space"  -> <<32,32, 10,10, 13,13, 9,9, 11,11, 12,12>>
     [] op = "upper"  -> <<65,90>>
     [] op = "xdigit" -> <<48,57, 97,102, 65,70>>
     [] op = "cntrl"  -> <<0,31, 127,127>>
     [] op = "graph"  -> <<33,126>>
ClassOps == {"alnum","alpha","blank","digit","identifier_first","identifier_other","lower","nul",
             "odigit","print","seven","space","upper","xdigit","cntrl","graph"}

-----------------------------------------------------------------------------
(* UTF-8: well-formed sequences per Unicode Table 3-7.  U8(p, lim) is       *)
(* <<code point, length>> of the scalar value encoded at offset p, or      *)
(* <<-1, 0>> if the bytes at p are not a complete well-formed sequence.    *)
Cont(o, lim) == o < lim /\ By(o) >= 128 /\ By(o) <= 191
U8(p, lim) ==
   IF p >= lim THEN <<-1, 0>> ELSE
   LET b0 == By(p) IN
   IF b0 <= 127 THEN <<b0, 1>>
   ELSE IF b0 >= 194 /\ b0 <= 223 /\ Cont(p+1, lim)
        THEN <<(b0 - 192) * 64 + (By(p+1) - 128), 2>>
   ELSE IF b0 >= 224 /\ b0 <= 239 /\ Cont(p+1, lim) /\ Cont(p+2, lim)
           /\ (b0 = 224 => By(p+1) >= 160) /\ (b0 = 237 => By(p+1) <= 159)
        THEN <<(b0 - 224) * 4096 + (By(p+1) - 128) * 64 + (By(p+2) - 128), 3>>
   ELSE IF b0 >= 240 /\ b0 <= 244 /\ Cont(p+1, lim) /\ Cont(p+2, lim) /\ Cont(p+3, lim)
           /\ (b0 = 240 => By(p+1) >= 144) /\ (b0 = 244 => By(p+1) <= 143)
        THEN <<(b0 - 240) * 262144 + (By(p+1) - 128) * 4096 + (By(p+2) - 128) * 64 + (By(p+3) - 128), 4>>
   ELSE <<-1, 0>>

-----------------------------------------------------------------------------
(* positions (C06): a function of the consumed prefix only                 *)
EolCh(eol) == IF eol \in {1, 4} THEN 13 ELSE 10
EolIdx(o, ch) == {i \in 1..(IF o <= Len(W) THEN o ELSE Len(W)) : W[i] = ch}
MaxOf(S) == CHOOSE x \in S : \A y \in S : y <= x
PosByte(o, c) == c.ib + o
PosLine(o, c) == c.il + Cardinality(EolIdx(o, EolCh(c.eol)))
PosCol(o, c)  == LET S == EolIdx(o, EolCh(c.eol)) IN IF S = {} THEN c.ic + o ELSE o - MaxOf(S) + 1

\* the five end-of-line policies: offset after the line ending at p, or -1
EolEnd(p, c) ==
   LET lim == c.lim
       has1 == p < lim
       has2 == p + 1 < lim
   IN CASE c.eol = 0 -> IF has1 /\ By(p) = 10 THEN p + 1 ELSE -1
        [] c.eol = 1 -> IF has1 /\ By(p) = 13 THEN p + 1 ELSE -1
        [] c.eol = 2 -> IF has2 /\ By(p) = 13 /\ By(p+1) = 10 THEN p + 2 ELSE -1
        [] c.eol = 3 -> IF has1 /\ By(p) = 10 THEN p + 1
                        ELSE IF has2 /\ By(p) = 13 /\ By(p+1) = 10 THEN p + 2 ELSE -1
        [] c.eol = 4 -> IF has1 /\ By(p) = 13
                        THEN (IF has2 /\ By(p+1) = 10 THEN p + 2 ELSE p + 1) ELSE -1

-----------------------------------------------------------------------------
(* actions (C04): kind of the action a node has in action family fam       *)
Pow16(f) == IF f = 0 THEN 1 ELSE IF f = 1 THEN 16 ELSE IF f = 2 THEN 256 ELSE IF f = 3 THEN 4096
            ELSE IF f = 4 THEN 65536 ELSE IF f = 5 THEN 1048576 ELSE IF f = 6 THEN 16777216 ELSE 268435456
\* (family 8: control_action, no apply / apply0)
AKind(n, fam) == IF fam = 0 \/ fam >= 8 THEN 0 ELSE (Nodes[n].ak \div Pow16(fam)) % 16
Visible(n, c) == c.vis = 1 \/ Nodes[n].en = 1

\* effect of the node's own action on the outcome of its body
WithAct(n, p, r, c) ==
   IF r.k = "T" /\ c.A = 1 /\ Visible(n, c) THEN
      LET kind == AKind(n, c.fam)
          len  == r.e - p
          vid  == Nodes[n].vid
      IN CASE kind = 3 -> IF (len + vid) % 3 = 0 THEN RF ELSE r
           [] kind = 4 -> IF vid % 3 = 0 THEN RF ELSE r
           [] kind = 5 -> IF (len + vid) % 3 = 0 THEN RX(XActForeign, p) ELSE r
           [] kind = 6 -> IF (len + vid) % 3 = 0 THEN RX(XActParseError, p) ELSE r
           [] kind = 7 -> IF vid % 3 = 0 THEN RX(XActForeign, p) ELSE r
           [] OTHER    -> r
   ELSE r

\* harness actions of if_apply / apply / apply0 (see vt::ia_v, vt::ia_b)
IaTrue(kind, n, len, zero) == kind = 1 \/ (IF zero THEN n % 3 # 0 ELSE (len + n) % 3 # 0)
IaAll(pp, len, zero) == \A i \in 1..(Len(pp) \div 2) : IaTrue(pp[2*i-1], pp[2*i], len, zero)
\* number of listed actions that are called: all up to and including the first that returns false
IaCalled(pp, len, zero) ==
   LET F == {i \in 1..(Len(pp) \div 2) : ~IaTrue(pp[2*i-1], pp[2*i], len, zero)} IN
   IF F = {} THEN Len(pp) \div 2 ELSE CHOOSE i \in F : \A j \in F : i <= j

\* which exceptions a try_catch catches: p[1] = 0 any, 1 parse_error_base, 2 std::exception, 3 foreign_error
Catches(kind, who) ==
   CASE kind = 0 -> TRUE
     [] kind = 1 -> who > 0 \/ who \in {XActParseError} \cup XLimits
     [] kind = 2 -> who > 0 \/ who \in {XActParseError} \cup XLimits
     [] kind = 3 -> who = XActForeign
     [] OTHER    -> FALSE

-----------------------------------------------------------------------------
(* documented expansions                                                   *)
RepK(n, ks) == [i \in 1..n |-> ESeq(ks)]

Desugar(x) ==
   LET k == x.kids  pp == x.p IN
   CASE x.op = "opt"          -> ESor(<<ESeq(k), ESucc>>)
     [] x.op = "plus"         -> ESeq(<<ERep(1, k), EStar(k)>>)                       \* rep_min< 1, R... >
     [] x.op = "rep_min"      -> ESeq(<<ERep(pp[1], k), EStar(k)>>)
     [] x.op = "rep"          -> ESeq(RepK(pp[1], k))
     [] x.op = "rep_opt"      -> ERep(pp[1], <<EOpt(k)>>)
     [] x.op = "rep_max"      -> E("rep_min_max", k, <<0, pp[1]>>)
     [] x.op = "rep_min_max"  -> ESeq(<<ERep(pp[1], k), E("rep_opt", k, <<pp[2] - pp[1]>>), ENot(k)>>)
     [] x.op = "if_must"      -> ESeq(<<k[1], EMust(Tail1(k))>>)
     [] x.op = "if_must_else" -> E("if_then_else", <<k[1], EMust(<<k[2]>>), EMust(<<k[3]>>)>>, <<>>)
     [] x.op = "if_then_else" -> ESor(<<ESeq(<<k[1], k[2]>>), ESeq(<<ENot(<<k[1]>>), k[3]>>)>>)
     [] x.op = "opt_must"     -> EOpt(<<E("if_must", k, <<>>)>>)
     [] x.op = "star_must"    -> EStar(<<E("if_must", k, <<>>)>>)
     [] x.op = "pad"          -> ESeq(<<EStar(<<k[2]>>), k[1], EStar(<<k[IF Len(k) = 3 THEN 3 ELSE 2]>>)>>)
     [] x.op = "pad_opt"      -> ESeq(<<EStar(<<k[2]>>), EOpt(<<k[1], EStar(<<k[2]>>)>>)>>)
     [] x.op = "list"         -> IF Len(k) = 2 THEN ESeq(<<k[1], EStar(<<k[2], k[1]>>)>>)
                                 ELSE ESeq(<<k[1], EStar(<<E("pad", <<k[2], k[3]>>, <<>>), k[1]>>)>>)
     [] x.op = "list_must"    -> IF Len(k) = 2 THEN ESeq(<<k[1], EStar(<<E("if_must", <<k[2], k[1]>>, <<>>)>>)>>)
                                 ELSE ESeq(<<k[1], EStar(<<E("if_must", <<E("pad", <<k[2], k[3]>>, <<>>), k[1]>>, <<>>)>>)>>)
     [] x.op = "list_tail"    -> IF Len(k) = 2 THEN ESeq(<<E("list", k, <<>>), EOpt(<<k[2]>>)>>)
                                 ELSE ESeq(<<E("list", k, <<>>), EOpt(<<EStar(<<k[3]>>), k[2]>>)>>)
     [] x.op = "minus"        -> E("rematch", <<k[1], ENot(<<k[2], EEof>>)>>, <<>>)
     [] x.op = "strict"       -> ESor(<<ENot(<<k[1]>>), ESeq(k)>>)
     [] x.op = "until"        -> IF Len(k) = 1 THEN E("until", <<k[1], EAny>>, <<>>)        \* until< R > = until< R, any >
                                 ELSE ESeq(<<EStar(<<ENot(<<k[1]>>)>> \o Tail1(k)), k[1]>>)
     [] x.op = "eolf"         -> ESor(<<EEof, EEol>>)
     [] x.op = "everything"   -> E("until", <<EEof, EAny>>, <<>>)
     [] x.op = "identifier"   -> ESeq(<<E("identifier_first", <<>>, <<>>), EStar(<<E("identifier_other", <<>>, <<>>)>>)>>)
     [] x.op = "keyword"      -> ESeq(<<EString(pp), ENot(<<E("identifier_other", <<>>, <<>>)>>)>>)
     [] x.op = "shebang"      -> E("if_must", <<EString(<<35, 33>>), E("until", <<E("eolf", <<>>, <<>>)>>, <<>>)>>, <<>>)
     [] x.op = "two"          -> EString(<<pp[1], pp[1]>>)
     [] x.op = "three"        -> EString(<<pp[1], pp[1], pp[1]>>)
     [] x.op = "ellipsis"     -> EString(<<46, 46, 46>>)
     [] x.op = "forty_two"    -> ERep(42, <<EOne(pp)>>)
     [] x.op = "string"       -> ESeq([i \in 1..Len(pp) |-> EOne(<<pp[i]>>)])
     [] x.op = "ranges"       -> ESor([i \in 1..((Len(pp) + 1) \div 2) |->
                                       IF 2*i <= Len(pp) THEN (IF pp[2*i-1] = pp[2*i] THEN EOne(<<pp[2*i]>>) ELSE ERange(pp[2*i-1], pp[2*i]))
                                       ELSE EOne(<<pp[Len(pp)]>>)])
     [] x.op = "separated_seq" -> IF Len(k) <= 2 THEN ESeq(Tail1(k))   \* k[1] is the separator
                                  ELSE ESeq(<<k[2], k[1], E("separated_seq", <<k[1]>> \o SubSeq(k, 3, Len(k)), <<>>)>>)
     [] x.op = "rep_string"   -> ERep(pp[1], <<EString(Tail1(pp))>>)                 \* rep< N, string< Cs... > >
     [] x.op = "rep_one_min_max" -> E("rep_min_max", <<EOne(<<pp[3]>>)>>, <<pp[1], pp[2]>>)   \* rep_min_max< Min, Max, one< C > >
     [] x.op \in ClassOps     -> E("ranges", <<>>, ClassRanges(x.op))
Sugar == {"opt","plus","rep_min","rep","rep_opt","rep_max","rep_min_max","if_must","if_must_else","if_then_else",
          "opt_must","star_must","pad","pad_opt","list","list_must","list_tail","minus","strict","until","eolf",
          "everything","identifier","keyword","shebang","two","three","ellipsis","forty_two","string","ranges",
          "separated_seq","rep_string","rep_one_min_max"} \cup ClassOps

-----------------------------------------------------------------------------
(* contrib/integer.hpp: numeral syntax (C15).  Values are compared as      *)
(* decimal digit sequences because TLC integers are 32 bit.                *)
EDigit == E("digit", <<>>, <<>>)
EUnsigned == E("if_then_else", <<EOne(<<48>>), ENot(<<EDigit>>), E("plus", <<EDigit>>, <<>>)>>, <<>>)   \* no superfluous leading zero
ESigned   == ESeq(<<EOpt(<<EOne(<<45, 43>>)>>), EUnsigned>>)
RECURSIVE DecLexLeq(_, _, _)
DecLexLeq(a, b, i) == IF i > Len(a) THEN TRUE
                      ELSE IF a[i] < b[i] THEN TRUE ELSE IF a[i] > b[i] THEN FALSE ELSE DecLexLeq(a, b, i + 1)
DecLeq(a, b) == Len(a) < Len(b) \/ (Len(a) = Len(b) /\ DecLexLeq(a, b, 1))    \* numerals without leading zeros
Digits(p, e) == [i \in 1..(e - p) |-> W[p + i] - 48]

(* contrib/raw_string.hpp: Lua long brackets (C16) *)
MinOf(S) == CHOOSE x \in S : \A y \in S : x <= y
RECURSIVE MarkerRun(_, _, _)
MarkerRun(q, lim, mk) == IF q < lim /\ SBy(q) = mk THEN 1 + MarkerRun(q + 1, lim, mk) ELSE 0
\* length of the opening long bracket at p (level + 2), 0 if there is none
RawOpenLen(p, lim, op, mk) ==
   IF p < lim /\ SBy(p) = op
   THEN LET n == MarkerRun(p + 1, lim, mk) IN IF p + 1 + n < lim /\ SBy(p + 1 + n) = op THEN n + 2 ELSE 0
   ELSE 0
RawCloseAt(q, ms, lim, mk, cl) ==
   /\ q + ms <= lim
   /\ SBy(q) = cl /\ SBy(q + ms - 1) = cl
   /\ \A i \in 1..(ms - 2) : SBy(q + i) = mk
\* where the content starts: after the bracket and one immediately following line ending
RawContentStart(p, ms, c) == LET e == EolEnd(p + ms, c) IN IF e >= 0 THEN e ELSE p + ms

-----------------------------------------------------------------------------
RECURSIVE DenX(_, _, _, _), Den(_, _, _, _), SeqK(_, _, _, _, _), SorK(_, _, _, _, _),
          StarK(_, _, _, _), MustK(_, _, _, _, _),
          StarPartialK(_, _, _, _), StarStrictK(_, _, _, _), RematchK(_, _, _, _, _, _), RawUntilK(_, _, _, _, _, _)

\* limits attached through action family 4 (contrib/limit_depth.hpp, limit_bytes.hpp, check_bytes.hpp), C18:
\*   lim = kind * 1000 + N;  1 limit_depth< N >, 2 limit_bytes< N >, 3 check_bytes< N >
LimKind(n, c) == IF c.fam = 4 THEN Nodes[n].lim \div 1000 ELSE 0
LimN(n)       == Nodes[n].lim % 1000
Min2(a, b)    == IF a <= b THEN a ELSE b

\* switches attached through action family 5 (change_action*, change_control, enable_action, disable_action), C13:
\* they hold for the rule itself and its sub-tree
SwKind(n, c) == IF c.fam = 5 THEN Nodes[n].sw ELSE 0
Switch(n, c) ==
   LET k == SwKind(n, c) IN
   CASE k \in {3, 4, 5, 10} -> [c EXCEPT !.fam = 1]
     [] k = 6 -> [c EXCEPT !.vis = 0]
     [] k = 7 -> [c EXCEPT !.A = 1]
     [] k = 8 -> [c EXCEPT !.A = 0]
     [] OTHER -> c

\* must_if< Errors >::control (C05): c.mi = 1: a rule that has a message in Errors raises when it fails locally (also when
\* its action vetoes); c.mi = 2: Errors::raise_on_failure< Rule > decides.  The failure hook is what raises, so only rules
\* whose control is enabled are concerned.
Rof(n, c) == c.mi > 0 /\ Visible(n, c) /\ (IF c.mi = 1 THEN Nodes[n].mihas = 1 ELSE Nodes[n].mirof = 1)
MustIf(n, p, r, c) == IF r.k = "F" /\ Rof(n, c) THEN RX(n, p) ELSE r

\* a node: its body, then its own action
Den(n, p, c, d) ==
   IF d = 0 THEN RL
   ELSE LET lk == LimKind(n, c) IN
        CASE lk = 1 /\ Visible(n, c) ->
                \* a guarded rule never runs nested more than N guarded levels deep
                IF c.dep + 1 > LimN(n) THEN RX(XDepth, p)
                ELSE DenX(Lift(n), p, [c EXCEPT !.dep = @ + 1], d - 1)
          [] lk = 2 ->
                \* the guarded rule sees at most N bytes from where its match starts; a match that uses all of
                \* them while more input exists is reported as a global failure
                LET lim2 == Min2(c.lim, p + LimN(n))
                    r == DenX(Lift(n), p, [c EXCEPT !.lim = lim2], d - 1)
                IN IF r.k = "T" /\ r.e = lim2 /\ lim2 # c.lim THEN RX(XBytes, r.e) ELSE r
          [] lk = 3 ->
                LET r == DenX(Lift(n), p, c, d - 1) IN
                IF r.k = "T" /\ r.e - p > LimN(n) THEN RX(XCheck, r.e) ELSE r
          [] OTHER -> LET c2 == Switch(n, c) IN MustIf(n, p, WithAct(n, p, DenX(Lift(n), p, c2, d - 1), c2), c2)

SeqK(ks, i, p, c, d) ==
   IF i > Len(ks) THEN RT(p)
   ELSE LET r == DenX(ks[i], p, c, d) IN
        IF r.k = "T" THEN SeqK(ks, i + 1, r.e, c, d) ELSE r

SorK(ks, i, p, c, d) ==
   IF i > Len(ks) THEN RF
   ELSE LET r == DenX(ks[i], p, c, d) IN
        IF r.k = "F" THEN SorK(ks, i + 1, p, c, d) ELSE r

StarK(ks, p, c, d) ==     \* greedy repetition of seq< ks >
   LET r == SeqK(ks, 1, p, c, d) IN
   CASE r.k = "T" -> IF r.e = p THEN RL ELSE StarK(ks, r.e, c, d)
     [] r.k = "F" -> RT(p)
     [] OTHER     -> r

MustK(ks, i, p, c, d) ==  \* seq< sor< R, raise< R > >... >
   IF i > Len(ks) THEN RT(p)
   ELSE LET r == DenX(ks[i], p, c, d) IN
        CASE r.k = "T" -> MustK(ks, i + 1, r.e, c, d)
          [] r.k = "F" -> RX(ks[i].id, p)
          [] OTHER     -> r

\* star_partial< R... >: like star, but the final iteration keeps a partial match
RECURSIVE PartialSeqK(_, _, _, _, _)
PartialSeqK(ks, i, p, c, d) ==   \* <<result, complete?>> of one iteration
   IF i > Len(ks) THEN <<RT(p), TRUE>>
   ELSE LET r == DenX(ks[i], p, c, d) IN
        CASE r.k = "T" -> PartialSeqK(ks, i + 1, r.e, c, d)
          [] r.k = "F" -> <<RT(p), FALSE>>
          [] OTHER     -> <<r, FALSE>>
StarPartialK(ks, p, c, d) ==
   LET it == PartialSeqK(ks, 1, p, c, d) IN
   IF it[1].k # "T" THEN it[1]
   ELSE IF it[2] THEN (IF it[1].e = p THEN RL ELSE StarPartialK(ks, it[1].e, c, d))
   ELSE it[1]

\* star_strict< R1, Rs... >: a partial match of an iteration is a local failure
StarStrictK(ks, p, c, d) ==
   LET r1 == DenX(ks[1], p, c, d) IN
   CASE r1.k = "F" -> RT(p)
     [] r1.k = "T" -> LET r == SeqK(Tail1(ks), 1, r1.e, c, d) IN
                      CASE r.k = "T" -> IF r.e = p THEN RL ELSE StarStrictK(ks, r.e, c, d)
                        [] OTHER     -> r
     [] OTHER      -> r1

\* rematch< R, S... >: every S must match (a prefix of) exactly the bytes R matched
RematchK(ks, i, p, e, c, d) ==
   IF i > Len(ks) THEN RT(e)
   ELSE LET r == DenX(ks[i], p, [c EXCEPT !.lim = e], d) IN
        IF r.k = "T" THEN RematchK(ks, i + 1, p, e, c, d) ELSE r

\* raw_string with content rules: until< at the closing bracket, Contents... >
RawUntilK(ks, q, ms, pp, c, d) ==
   IF RawCloseAt(q, ms, c.lim, pp[2], pp[3]) THEN RT(q + ms)
   ELSE LET r == SeqK(ks, 1, q, c, d) IN
        CASE r.k = "T" -> IF r.e = q THEN RL ELSE RawUntilK(ks, r.e, ms, pp, c, d)
          [] OTHER     -> r

DenX(x, p, c, d) ==
   LET op == x.op  k == x.kids  pp == x.p  lim == c.lim IN
   CASE op = "ref"      -> Den(pp[1], p, c, d)
     [] op = "seq"      -> SeqK(k, 1, p, c, d)
     [] op = "sor"      -> SorK(k, 1, p, c, d)
     [] op = "star"     -> StarK(k, p, c, d)
     [] op = "at"       -> LET r == SeqK(k, 1, p, [c EXCEPT !.A = 0], d) IN IF r.k = "T" THEN RT(p) ELSE r
     [] op = "not_at"   -> LET r == SeqK(k, 1, p, [c EXCEPT !.A = 0], d) IN
                           CASE r.k = "T" -> RF [] r.k = "F" -> RT(p) [] OTHER -> r
     [] op = "must"     -> MustK(k, 1, p, c, d)
     [] op = "partial"  -> LET it == PartialSeqK(k, 1, p, c, d) IN it[1]
     [] op = "star_partial" -> StarPartialK(k, p, c, d)
     [] op = "star_strict"  -> StarStrictK(k, p, c, d)
     [] op = "rematch"  -> LET r == DenX(k[1], p, c, d) IN
                           IF r.k = "T" THEN RematchK(k, 2, p, r.e, c, d) ELSE r
     [] op = "success"  -> RT(p)
     [] op = "failure"  -> RF
     [] op = "discard"  -> RT(p)
     [] op = "any"      -> IF p < lim THEN RT(p + 1) ELSE RF
     [] op = "one"      -> IF p < lim /\ SBy(p) \in SeqSet(pp) THEN RT(p + 1) ELSE RF
     [] op = "not_one"  -> IF p < lim /\ SBy(p) \notin SeqSet(pp) THEN RT(p + 1) ELSE RF
     [] op = "range"    -> IF p < lim /\ pp[1] <= SBy(p) /\ SBy(p) <= pp[2] THEN RT(p + 1) ELSE RF
     [] op = "not_range" -> IF p < lim /\ ~(pp[1] <= SBy(p) /\ SBy(p) <= pp[2]) THEN RT(p + 1) ELSE RF
     [] op = "istring"  -> IF p + Len(pp) <= lim /\ \A i \in 1..Len(pp) :
                                 IF IsAlphaByte(pp[i]) THEN Fold(By(p + i - 1)) = Fold(pp[i]) ELSE SBy(p + i - 1) = pp[i]
                           THEN RT(p + Len(pp)) ELSE RF
     [] op = "eof"      -> IF p = lim THEN RT(p) ELSE RF
     [] op = "eol"      -> LET e == EolEnd(p, c) IN IF e >= 0 THEN RT(e) ELSE RF
     [] op = "bof"      -> IF PosByte(p, c) = 0 THEN RT(p) ELSE RF
     [] op = "bol"      -> IF PosCol(p, c) = 1 THEN RT(p) ELSE RF
     [] op = "bytes"    -> IF p + pp[1] <= lim THEN RT(p + pp[1]) ELSE RF
     [] op = "require"  -> IF p + pp[1] <= lim THEN RT(p) ELSE RF
     [] op = "u8any"    -> LET u == U8(p, lim) IN IF u[2] > 0 THEN RT(p + u[2]) ELSE RF
     [] op = "u8one"    -> LET u == U8(p, lim) IN IF u[2] > 0 /\ u[1] \in SeqSet(pp) THEN RT(p + u[2]) ELSE RF
     [] op = "u8not_one" -> LET u == U8(p, lim) IN IF u[2] > 0 /\ u[1] \notin SeqSet(pp) THEN RT(p + u[2]) ELSE RF
     [] op = "u8range"  -> LET u == U8(p, lim) IN IF u[2] > 0 /\ pp[1] <= u[1] /\ u[1] <= pp[2] THEN RT(p + u[2]) ELSE RF
     [] op = "u8not_range" -> LET u == U8(p, lim) IN IF u[2] > 0 /\ ~(pp[1] <= u[1] /\ u[1] <= pp[2]) THEN RT(p + u[2]) ELSE RF
     [] op = "u8ranges" -> LET u == U8(p, lim) IN IF u[2] > 0 /\ InRanges(u[1], pp) THEN RT(p + u[2]) ELSE RF
     [] op = "u8string" -> SeqK([i \in 1..Len(pp) |-> E("u8one", <<>>, <<pp[i]>>)], 1, p, c, d)
     [] op = "u8bom"    -> DenX(E("u8one", <<>>, <<65279>>), p, c, d)
     \* rules that switch a parsing-run parameter for their sub-tree
     [] op = "enable"   -> SeqK(k, 1, p, [c EXCEPT !.A = 1], d)
     [] op = "disable"  -> SeqK(k, 1, p, [c EXCEPT !.A = 0], d)
     [] op = "action"   -> SeqK(k, 1, p, [c EXCEPT !.fam = pp[1]], d)
     [] op = "state"    -> SeqK(k, 1, p, c, d)
     [] op = "control"  -> SeqK(k, 1, p, [c EXCEPT !.vis = IF pp[1] \in {3, 4} THEN 1 ELSE 0], d)
     \* if_apply / apply / apply0 call their listed actions in order and stop at the first that returns false;
     \* pp = <<kind1, n1, kind2, n2, ...>> describes the harness actions (kind 1 void, 2 bool)
     [] op = "apply"    -> IF c.A = 1 /\ ~IaAll(pp, 0, FALSE) THEN RF ELSE RT(p)
     [] op = "apply0"   -> IF c.A = 1 /\ ~IaAll(pp, 0, TRUE) THEN RF ELSE RT(p)
     [] op = "if_apply" -> LET r == SeqK(k, 1, p, c, d) IN
                           IF r.k = "T" /\ c.A = 1 /\ ~IaAll(pp, r.e - p, FALSE) THEN RF ELSE r
     \* global failure
     [] op = "raise"    -> RXT(x.id, p)
     [] op = "try_catch_return_false" ->
                           LET r == SeqK(k, 1, p, c, d) IN
                           IF r.k = "X" /\ Catches(pp[1], r.who) THEN RF ELSE r
     [] op = "try_catch_raise_nested" ->
                           LET r == SeqK(k, 1, p, c, d) IN
                           IF r.k = "X" /\ Catches(pp[1], r.who) THEN RXN(pp[2], p) ELSE r
     \* contrib
     [] op = "unsigned_rule" -> DenX(EUnsigned, p, c, d)
     [] op = "signed_rule"   -> DenX(ESigned, p, c, d)
     [] op = "maximum_rule"  -> LET r == DenX(EUnsigned, p, c, d) IN
                                IF r.k = "T" /\ ~DecLeq(Digits(p, r.e), pp) THEN RF ELSE r
     [] op = "raw_string"    -> LET ms == RawOpenLen(p, lim, pp[1], pp[2]) IN
                                IF ms = 0 THEN RF
                                ELSE LET cs == RawContentStart(p, ms, c) IN
                                     IF k = <<>>
                                     THEN LET Q == {q \in cs..lim : RawCloseAt(q, ms, lim, pp[2], pp[3])} IN
                                          IF Q = {} THEN RF ELSE RT(MinOf(Q) + ms)
                                     ELSE RawUntilK(k, cs, ms, pp, c, d)
     [] op = "opaque"   -> RO
     [] op \in Sugar    -> DenX(Desugar(x), p, c, d)

\* denotation of a node without the effect of its own action ("the rule just matched")
DenBody(n, p, c, d) == DenX(Lift(n), p, c, d)

=============================================================================
