SPECIFICATION TraceSpec
CONSTRAINT Export
POSTCONDITION Accepted
CHECK_DEADLOCK FALSE
