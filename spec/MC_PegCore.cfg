SPECIFICATION Spec
CONSTANTS Levels = 1 MaxLen = 2 ExcOps = TRUE AllCfgs = TRUE Stride = 1 Offset = 0 Wide = TRUE
INVARIANTS NoVerdict ResultOK
CHECK_DEADLOCK FALSE
