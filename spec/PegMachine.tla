------------------------------ MODULE PegMachine ------------------------------
(***************************************************************************)
(* Operational layer: a small-step model of how PEGTL runs a grammar,      *)
(* written to be bound, not admired.  One transition per control-flow      *)
(* point of the real code:                                                 *)
(*                                                                         *)
(*   Control< Rule >::match   (the observation seam: events en / ex / xc)  *)
(*   match< Rule, ... >()     match.hpp: rewind guard iff an apply or a    *)
(*                            bool apply0 exists, start hook, the rule's   *)
(*                            body inside the unwind guard, the action     *)
(*                            (guarded as well since fix 34b9ca3), success *)
(*                            or failure hook, release / restore the guard *)
(*   Rule::match              one little program per internal template     *)
(*                            (internal/seq.hpp, sor.hpp, star_partial.hpp,*)
(*                            plus.hpp, partial.hpp, at.hpp, not_at.hpp,   *)
(*                            must.hpp, raise.hpp, try_catch_return_false, *)
(*                            and the atoms), with the rewind mode each    *)
(*                            sub-rule is called with                      *)
(*                                                                         *)
(* The machine works on the implementation view of the grammar table       *)
(* (fields iop, ikids, ip: what rule_t / subs_t say).  Every step may emit *)
(* events in the vocabulary of PegContract; MC_PegCore feeds them to the   *)
(* contract (design-level check), TraceMachine compares them with the      *)
(* events recorded from the real code (drift).                             *)
(***************************************************************************)
EXTENDS Integers, Sequences, FiniteSets, TLC

CONSTANTS Nodes    \* grammar table

VARIABLES W,       \* input bytes of the run               } fixed during a run; variables only because the
          Cfg,     \* [g, A, M, af, cf, eol, ib, il, ic]    } enclosing module chooses them per behaviour
          fr,      \* call stack: frames of rule invocations, innermost last
          cur,     \* cursor (offset)
          ret,     \* result of the invocation that just returned: 1 / 0, -1 none
          exc,     \* exception in flight: [who, at, cls, m, n] or NoExc
          q,       \* events emitted and not yet taken by the observer
          done     \* the run is over: 1 / 0 / 2 (result), -1 while running

mvars == <<fr, cur, ret, exc, q, done>>

D == INSTANCE PegDen WITH Nodes <- Nodes, W <- W

\* m = 1: the message names raise< T >'s T (Control< T >::raise), n = 1: thrown by raise_nested
NoExc == [who |-> 0, at |-> 0, cls |-> 0, m |-> 0, n |-> 0]
N == Len(W)
\* the control family is a property of the invocation: control< C, R > switches it for a sub-tree
FullVis(f) == f.cf \in {3, 4}
HasUnw(f)  == f.cf \in {2, 4}
PosCtx == [eol |-> Cfg.eol, ib |-> Cfg.ib, il |-> Cfg.il, ic |-> Cfg.ic]

Enabled(f) == FullVis(f) \/ Nodes[f.n].en = 1
AKindOf(n, af) == D!AKind(n, af)

\* events, in the field layout of harness/vtrace.hpp
Cur3(o) == [b |-> D!PosByte(o, PosCtx), l |-> D!PosLine(o, PosCtx), c |-> D!PosCol(o, PosCtx)]
EvEn(n, A, M, af, cf, o) == [k |-> "en", r |-> n, A |-> A, M |-> M, b |-> Cur3(o).b, l |-> Cur3(o).l, c |-> Cur3(o).c, o |-> o, e |-> N,
                          af |-> af, cf |-> cf, d |-> -1, s |-> 0]
EvEx(n, v, o) == [k |-> "ex", r |-> n, v |-> v, b |-> Cur3(o).b, l |-> Cur3(o).l, c |-> Cur3(o).c, o |-> o, e |-> N, d |-> -1]
EvXc(n, cls, o) == [k |-> "xc", r |-> n, x |-> cls, b |-> Cur3(o).b, l |-> Cur3(o).l, c |-> Cur3(o).c, o |-> o, e |-> N, d |-> -1]
EvHook(k, n, cf, o) == [k |-> k, r |-> n, b |-> Cur3(o).b, l |-> Cur3(o).l, c |-> Cur3(o).c, o |-> o, e |-> N, cf |-> cf]
EvAp(n, af, beg, o, v) == [k |-> "ap", r |-> n, af |-> af, b |-> Cur3(beg).b, l |-> Cur3(beg).l, c |-> Cur3(beg).c, o |-> beg, eo |-> o,
                            n |-> o - beg, io |-> o, v |-> v, s |-> 0]
EvA0(n, af, o, v) == [k |-> "a0", r |-> n, af |-> af, io |-> o, v |-> v, s |-> 0]
\* actions listed in if_apply / apply / apply0 are called by the rule itself (internal/apply_single.hpp), they log themselves
EvIa(n, beg, o, v) == [k |-> "ia", n |-> n, b |-> Cur3(beg).b, l |-> Cur3(beg).l, c |-> Cur3(beg).c, o |-> beg, eo |-> o, v |-> v]
EvI0(n, v) == [k |-> "i0", n |-> n, v |-> v]
\* ( apply_single< Actions >::match( i2, st... ) && ... ): in order, up to and including the first that returns false
IaEvents(pp, beg, end, zero) ==
   [i \in 1..D!IaCalled(pp, end - beg, zero) |->
      LET v == IF pp[2*i-1] = 1 THEN 0 ELSE IF D!IaTrue(pp[2*i-1], pp[2*i], end - beg, zero) THEN 1 ELSE 2
      IN IF zero THEN EvI0(pp[2*i], v) ELSE EvIa(pp[2*i], beg, end, v)]

\* a frame: node, apply mode, requested rewind mode, action family, program counter, loop index,
\* sv: cursor saved by the rule's own guard (-1 none), mg: cursor saved by match()'s guard (-1 none), av: action result
Frame(n, A, M, af, cf) == [n |-> n, A |-> A, M |-> M, af |-> af, cf |-> cf, pc |-> "enter", i |-> 0, lp |-> 0, sv |-> -1, mg |-> -1, entry |-> -1]

Top == fr[Len(fr)]
SetTop(f) == [fr EXCEPT ![Len(fr)] = f]
Push(f) == Append(fr, f)
Pop == SubSeq(fr, 1, Len(fr) - 1)

MInit == /\ fr = <<Frame(Cfg.g, Cfg.A, Cfg.M, Cfg.af, Cfg.cf)>>
         /\ cur = 0 /\ ret = -1 /\ exc = NoExc /\ q = <<>> /\ done = -1

\* the action Action< Rule > in family af: what the control dispatches after the body matched [beg, cur)
ActKind(f) == IF f.A = 1 /\ Enabled(f) THEN AKindOf(f.n, f.af) ELSE 0
UseGuard(f) == ActKind(f) \in {1, 3, 4, 5, 6}         \* has_apply || has_apply0_bool   (2, 7: void apply0 -> no guard)
\* rewind mode the body gets from match(): optional if match() took the guard, else the requested mode
BodyM(f) == IF Enabled(f) /\ UseGuard(f) THEN 0 ELSE f.M

-----------------------------------------------------------------------------
(* Control< Rule >::match and match< Rule >(): entering *)
Enter ==
   LET f == Top IN
   /\ exc = NoExc /\ done = -1 /\ q = <<>> /\ f.pc = "enter"
   /\ fr' = SetTop([f EXCEPT !.pc = "body", !.entry = cur, !.mg = IF Enabled(f) /\ UseGuard(f) THEN cur ELSE -1])
   /\ q' = <<EvEn(f.n, f.A, f.M, f.af, f.cf, cur)>> \o (IF Enabled(f) THEN <<EvHook("st", f.n, f.cf, cur)>> ELSE <<>>)
   /\ UNCHANGED <<cur, ret, exc, done>>

\* result of an atom at the cursor: <<matched?, new cursor>>  (one size / peek test, then one bump)
AtomStep(n) ==
   LET r == D!DenX(D!Lift(n), cur, [A |-> 0, lim |-> N, fam |-> 0, vis |-> 0, eol |-> Cfg.eol, ib |-> Cfg.ib, il |-> Cfg.il, ic |-> Cfg.ic, dep |-> 0], 3)
   IN IF r.k = "T" THEN <<1, r.e>> ELSE <<0, cur>>
\* rules without sub-rules that match in one step (their peeks and bumps are not modelled individually)
NonAtoms == {"raise", "apply", "apply0", "opaque", "seq", "sor", "raw_string"}     \* raw_string calls its helper rules through the control
IsAtom(n) == Nodes[n].ikids = <<>> /\ Nodes[n].iop \notin NonAtoms
\* internal rules that are called without being listed in subs_t: found in the table by their shape
NotAtOf(r) == {m \in 1..Len(Nodes) : Nodes[m].iop = "not_at" /\ Nodes[m].ikids = <<r>> /\ Nodes[m].en = 0}

\* strict / star_strict call internal::seq< Rules... > over all but their first sub-rule
RestOf(ks) == {m \in 1..Len(Nodes) : Nodes[m].iop = "seq" /\ Nodes[m].ikids = Tail(ks) /\ Nodes[m].en = 0}

\* return from the body with value v (the body's frame stays: match() continues in "after")
BodyDone(f, v) == /\ fr' = SetTop([f EXCEPT !.pc = "after", !.i = v])
                  /\ UNCHANGED <<ret, exc, q, done>>

\* call sub-rule number j of the current frame with modes (A, M)
CallKid(f, j, A, M, pc2) ==
   /\ fr' = Append(SetTop([f EXCEPT !.pc = pc2, !.i = j]), Frame(Nodes[f.n].ikids[j], A, M, f.af, f.cf))
   /\ ret' = -1
   /\ UNCHANGED <<cur, exc, q, done>>

(* Rule::match -- one program per internal template; pc "body" starts it, "k" resumes after sub-rule f.i returned ret *)
Body ==
   LET f == Top
       op == Nodes[f.n].iop
       ks == Nodes[f.n].ikids
       nk == Len(ks)
       M == BodyM(f)
   IN
   /\ exc = NoExc /\ done = -1 /\ q = <<>> /\ f.pc \in {"body", "k"}
   /\ CASE IsAtom(f.n) ->
             LET a == AtomStep(f.n) IN cur' = a[2] /\ BodyDone(f, a[1])
        \* internal/seq.hpp: one rule forwards M; otherwise guard< M >, all sub-rules optional
        [] op = "seq" ->
             IF nk = 0 THEN cur' = cur /\ BodyDone(f, 1)
             ELSE IF nk = 1 THEN
                  IF f.pc = "body" THEN CallKid(f, 1, f.A, M, "k") ELSE cur' = cur /\ BodyDone(f, ret)
             ELSE IF f.pc = "body" THEN CallKid([f EXCEPT !.sv = IF M = 1 THEN cur ELSE -1], 1, f.A, 0, "k")
             ELSE IF ret = 0 THEN /\ cur' = IF f.sv >= 0 THEN f.sv ELSE cur
                                  /\ BodyDone(f, 0)
             ELSE IF f.i = nk THEN cur' = cur /\ BodyDone(f, 1)
             ELSE CallKid(f, f.i + 1, f.A, 0, "k")
        \* internal/sor.hpp: required for all but the last alternative, M for the last; no guard
        [] op = "sor" ->
             IF nk = 0 THEN cur' = cur /\ BodyDone(f, 0)
             ELSE IF f.pc = "body" THEN CallKid(f, 1, f.A, IF nk = 1 THEN M ELSE 1, "k")
             ELSE IF ret = 1 THEN cur' = cur /\ BodyDone(f, 1)
             ELSE IF f.i = nk THEN cur' = cur /\ BodyDone(f, 0)
             ELSE CallKid(f, f.i + 1, f.A, IF f.i + 1 = nk THEN M ELSE 1, "k")
        \* internal/star_partial.hpp (star< R > derives from it): while( ( match< required >( R ) && ... ) ); return true
        [] op \in {"star", "star_partial"} ->
             IF f.pc = "body" THEN CallKid(f, 1, f.A, 1, "k")
             ELSE IF ret = 0 THEN cur' = cur /\ BodyDone(f, 1)
             ELSE CallKid(f, IF f.i = nk THEN 1 ELSE f.i + 1, f.A, 1, "k")
        \* internal/plus.hpp: first M, then required
        [] op = "plus" ->
             IF f.pc = "body" THEN CallKid(f, 1, f.A, M, "k")
             ELSE IF f.i = 1 /\ ret = 0 THEN cur' = cur /\ BodyDone(f, 0)        \* f.i = 1: the first attempt
             ELSE IF ret = 0 THEN cur' = cur /\ BodyDone(f, 1)
             ELSE CallKid(f, 1, f.A, 1, "k2")
        \* internal/partial.hpp (opt< R > derives from it): (void)( match< required >( R ) && ... ); return true
        [] op \in {"opt", "partial"} ->
             IF f.pc = "body" THEN CallKid(f, 1, f.A, 1, "k")
             ELSE IF ret = 0 \/ f.i = nk THEN cur' = cur /\ BodyDone(f, 1)
             ELSE CallKid(f, f.i + 1, f.A, 1, "k")
        \* internal/at.hpp, not_at.hpp: required guard that is never released, sub-rule with apply_mode::nothing, optional
        [] op \in {"at", "not_at"} ->
             IF f.pc = "body" THEN CallKid([f EXCEPT !.sv = cur], 1, 0, 0, "k")
             ELSE /\ cur' = f.sv
                  /\ BodyDone(f, IF op = "at" THEN ret ELSE 1 - ret)
        \* internal/must.hpp: sub-rule optional; on failure Control< Rule >::raise
        [] op = "must" ->
             IF f.pc = "body" THEN CallKid(f, 1, f.A, 0, "k")
             ELSE IF ret = 1 THEN cur' = cur /\ BodyDone(f, 1)
             ELSE /\ exc' = [who |-> ks[1], at |-> cur, cls |-> 1, m |-> 0, n |-> 0]
                  /\ q' = <<EvHook("ra", ks[1], f.cf, cur)>>
                  /\ fr' = SetTop([f EXCEPT !.pc = "thrown"])
                  /\ UNCHANGED <<cur, ret, done>>
        \* internal/raise.hpp: Control< T >::raise
        [] op = "raise" ->
             /\ exc' = [who |-> f.n, at |-> cur, cls |-> 1, m |-> 1, n |-> 0]
             /\ q' = <<EvHook("ra", Nodes[f.n].ip[1], f.cf, cur)>>
             /\ fr' = SetTop([f EXCEPT !.pc = "thrown"])
             /\ UNCHANGED <<cur, ret, done>>
        \* internal/if_must.hpp: Cond with M (required when the default result is success, fix e45e59f), then must< Rules... >
        [] op \in {"if_must", "opt_must"} ->
             IF f.pc = "body" THEN CallKid(f, 1, f.A, IF op = "opt_must" THEN 1 ELSE M, "k")
             ELSE IF f.i = 1 /\ ret = 0 THEN cur' = cur /\ BodyDone(f, IF op = "opt_must" THEN 1 ELSE 0)
             ELSE IF f.i = 1 THEN CallKid(f, 2, f.A, M, "k")
             ELSE cur' = cur /\ BodyDone(f, 1)
        \* internal/until.hpp: guard< M >; Cond required; without Rules bump one byte, fail at the end of the input
        [] op = "until" ->
             IF f.pc = "body" THEN CallKid([f EXCEPT !.sv = IF M = 1 THEN cur ELSE -1], 1, f.A, 1, "k")
             ELSE IF f.i = 1 /\ ret = 1 THEN cur' = cur /\ BodyDone(f, 1)
             ELSE IF f.i = 1 /\ nk = 1
                  THEN IF cur = N THEN /\ cur' = IF f.sv >= 0 THEN f.sv ELSE cur
                                       /\ BodyDone(f, 0)
                       ELSE /\ cur' = cur + 1
                            /\ fr' = Append(SetTop([f EXCEPT !.pc = "k", !.i = 1]), Frame(ks[1], f.A, 1, f.af, f.cf))
                            /\ ret' = -1 /\ UNCHANGED <<exc, q, done>>
             ELSE IF f.i = 1 THEN CallKid(f, 2, f.A, 0, "k")
             ELSE IF ret = 0 THEN /\ cur' = IF f.sv >= 0 THEN f.sv ELSE cur
                                  /\ BodyDone(f, 0)
             ELSE CallKid(f, 1, f.A, 1, "k")
        \* internal/rep.hpp: guard< M >, Cnt times optional
        [] op = "rep" ->
             IF f.pc = "body" THEN CallKid([f EXCEPT !.sv = IF M = 1 THEN cur ELSE -1, !.lp = 1], 1, f.A, 0, "k")
             ELSE IF ret = 0 THEN /\ cur' = IF f.sv >= 0 THEN f.sv ELSE cur
                                  /\ BodyDone(f, 0)
             ELSE IF f.lp = Nodes[f.n].ip[1] THEN cur' = cur /\ BodyDone(f, 1)
             ELSE CallKid([f EXCEPT !.lp = f.lp + 1], 1, f.A, 0, "k")
        \* internal/rep_opt.hpp: up to Max times required; always true
        [] op = "rep_opt" ->
             IF f.pc = "body" THEN CallKid([f EXCEPT !.lp = 1], 1, f.A, 1, "k")
             ELSE IF ret = 0 \/ f.lp = Nodes[f.n].ip[1] THEN cur' = cur /\ BodyDone(f, 1)
             ELSE CallKid([f EXCEPT !.lp = f.lp + 1], 1, f.A, 1, "k")
        \* internal/rep_min_max.hpp: guard< M >; Min times optional, up to Max required (stop => true), then not_at< Rule >
        [] op = "rep_min_max" ->
             LET mn == Nodes[f.n].ip[1]  mx == Nodes[f.n].ip[2] IN
             IF f.pc = "body" /\ mx = 0 THEN cur' = cur /\ BodyDone(f, 0)          \* (< Min, Max > with an empty pack is failure)
             ELSE IF f.pc = "body" THEN CallKid([f EXCEPT !.sv = IF M = 1 THEN cur ELSE -1, !.lp = 1], 1, f.A, IF mn >= 1 THEN 0 ELSE 1, "k")
             ELSE IF f.lp = mx + 1                                                \* the trailing not_at< Rule > returned
                  THEN /\ cur' = IF ret = 0 /\ f.sv >= 0 THEN f.sv ELSE cur
                       /\ BodyDone(f, ret)
             ELSE IF ret = 0 /\ f.lp <= mn THEN /\ cur' = IF f.sv >= 0 THEN f.sv ELSE cur
                                                /\ BodyDone(f, 0)
             ELSE IF ret = 0 THEN cur' = cur /\ BodyDone(f, 1)
             ELSE IF f.lp = mx
                  THEN /\ NotAtOf(ks[1]) # {}
                       /\ fr' = Append(SetTop([f EXCEPT !.pc = "k", !.lp = mx + 1]), Frame(CHOOSE m \in NotAtOf(ks[1]) : TRUE, f.A, 0, f.af, f.cf))
                       /\ ret' = -1 /\ UNCHANGED <<cur, exc, q, done>>
             ELSE CallKid([f EXCEPT !.lp = f.lp + 1], 1, f.A, IF f.lp + 1 <= mn THEN 0 ELSE 1, "k")
        \* internal/if_then_else.hpp: guard< M >; Cond required; Then / Else optional; Else is not tried after Then failed
        [] op = "if_then_else" ->
             IF f.pc = "body" THEN CallKid([f EXCEPT !.sv = IF M = 1 THEN cur ELSE -1], 1, f.A, 1, "k")
             ELSE IF f.i = 1 THEN CallKid(f, IF ret = 1 THEN 2 ELSE 3, f.A, 0, "k")
             ELSE /\ cur' = IF ret = 0 /\ f.sv >= 0 THEN f.sv ELSE cur
                  /\ BodyDone(f, ret)
        \* internal/enable.hpp, disable.hpp, action.hpp, control.hpp: one parameter of the run switched for the sub-tree, M forwarded
        [] op \in {"enable", "disable", "action", "control"} ->
             IF f.pc = "body"
             THEN /\ fr' = Append(SetTop([f EXCEPT !.pc = "k", !.i = 1]),
                                  Frame(ks[1], IF op = "enable" THEN 1 ELSE IF op = "disable" THEN 0 ELSE f.A, M,
                                        IF op = "action" THEN Nodes[f.n].ip[1] ELSE f.af,
                                        IF op = "control" THEN Nodes[f.n].ip[1] ELSE f.cf))
                  /\ ret' = -1 /\ UNCHANGED <<cur, exc, q, done>>
             ELSE cur' = cur /\ BodyDone(f, ret)
        \* internal/try_catch_raise_nested.hpp: required guard; sub-rule optional (a caught exception is handled in Unwind)
        [] op = "try_catch_raise_nested" ->
             IF f.pc = "body" THEN CallKid([f EXCEPT !.sv = cur], 1, f.A, 0, "k")
             ELSE /\ cur' = IF ret = 0 THEN f.sv ELSE cur
                  /\ BodyDone(f, ret)
        \* internal/try_catch_return_false.hpp: guard< M > outside the try, sub-rule optional
        [] op = "try_catch_return_false" ->
             IF f.pc = "body" THEN CallKid([f EXCEPT !.sv = IF M = 1 THEN cur ELSE -1], 1, f.A, 0, "k")
             ELSE /\ cur' = IF ret = 0 /\ f.sv >= 0 THEN f.sv ELSE cur
                  /\ BodyDone(f, ret)
        \* internal/strict.hpp: guard< M >; Rule required; then seq< Rules... > (an internal rule, called through the control,
        \* not listed in subs_t) optional; Rule failing is success, the rest failing restores
        [] op = "strict" ->
             IF f.pc = "body" THEN CallKid([f EXCEPT !.sv = IF M = 1 THEN cur ELSE -1], 1, f.A, 1, "k")
             ELSE IF f.i = 1
                  THEN IF ret = 0 THEN cur' = cur /\ BodyDone(f, 1)
                       ELSE /\ RestOf(ks) # {}
                            /\ fr' = Append(SetTop([f EXCEPT !.pc = "k", !.i = 2]), Frame(CHOOSE m \in RestOf(ks) : TRUE, f.A, 0, f.af, f.cf))
                            /\ ret' = -1 /\ UNCHANGED <<cur, exc, q, done>>
             ELSE /\ cur' = IF ret = 0 /\ f.sv >= 0 THEN f.sv ELSE cur
                  /\ BodyDone(f, ret)
        \* internal/star_strict.hpp: the same in a loop; Rule failing ends the loop with success
        [] op = "star_strict" ->
             IF f.pc = "body" THEN CallKid([f EXCEPT !.sv = IF M = 1 THEN cur ELSE -1], 1, f.A, 1, "k")
             ELSE IF f.i = 1
                  THEN IF ret = 0 THEN cur' = cur /\ BodyDone(f, 1)
                       ELSE /\ RestOf(ks) # {}
                            /\ fr' = Append(SetTop([f EXCEPT !.pc = "k", !.i = 2]), Frame(CHOOSE m \in RestOf(ks) : TRUE, f.A, 0, f.af, f.cf))
                            /\ ret' = -1 /\ UNCHANGED <<cur, exc, q, done>>
             ELSE IF ret = 1 THEN CallKid(f, 1, f.A, 1, "k")
             ELSE /\ cur' = IF f.sv >= 0 THEN f.sv ELSE cur
                  /\ BodyDone(f, 0)
        \* internal/apply.hpp, apply0.hpp: with actions enabled the listed actions run on an empty match; nothing is consumed
        [] op \in {"apply", "apply0"} ->
             LET pp == Nodes[f.n].ip
                 zero == op = "apply0"
             IN IF f.A = 1 /\ pp # <<>>
                THEN /\ cur' = cur
                     /\ q' = IaEvents(pp, cur, cur, zero)
                     /\ fr' = SetTop([f EXCEPT !.pc = "after", !.i = IF D!IaAll(pp, 0, zero) THEN 1 ELSE 0])
                     /\ UNCHANGED <<ret, exc, done>>
                ELSE cur' = cur /\ BodyDone(f, 1)
        \* internal/if_apply.hpp: with actions enabled and listed: required guard, sub-rule optional, then the listed actions
        \* on the matched range, a false one restores; otherwise the sub-rule is simply forwarded to
        [] op = "if_apply" ->
             LET pp == Nodes[f.n].ip IN
             IF f.A = 1 /\ pp # <<>>
             THEN IF f.pc = "body" THEN CallKid([f EXCEPT !.sv = cur], 1, 1, 0, "k")
                  ELSE IF ret = 0 THEN cur' = f.sv /\ BodyDone(f, 0)
                  ELSE LET ok == D!IaAll(pp, cur - f.sv, FALSE) IN
                       /\ cur' = IF ok THEN cur ELSE f.sv
                       /\ q' = IaEvents(pp, f.sv, cur, FALSE)
                       /\ fr' = SetTop([f EXCEPT !.pc = "after", !.i = IF ok THEN 1 ELSE 0])
                       /\ UNCHANGED <<ret, exc, done>>
             ELSE IF f.pc = "body" THEN CallKid(f, 1, f.A, M, "k") ELSE cur' = cur /\ BodyDone(f, ret)
\* plus.hpp resumes its loop under a different label so that "the first attempt" can be told apart
BodyPlusLoop ==
   LET f == Top IN
   /\ exc = NoExc /\ done = -1 /\ q = <<>> /\ f.pc = "k2"
   /\ IF ret = 0 THEN cur' = cur /\ BodyDone(f, 1) ELSE CallKid(f, 1, f.A, 1, "k2")

(* match< Rule >() after the body: action, success / failure hook, guard; then Control< Rule >::match returns *)
After ==
   LET f == Top
       v0 == f.i                                   \* what the body returned
       kind == ActKind(f)
       len == cur - f.entry
       vid == Nodes[f.n].vid
       veto == v0 = 1 /\ ((kind = 3 /\ (len + vid) % 3 = 0) \/ (kind = 4 /\ vid % 3 = 0))
       throws == v0 = 1 /\ ((kind \in {5, 6} /\ (len + vid) % 3 = 0) \/ (kind = 7 /\ vid % 3 = 0))
       v == IF veto THEN 0 ELSE v0
       av == IF throws THEN 3 ELSE IF kind \in {1, 2, 5, 6, 7} THEN 0 ELSE IF veto THEN 2 ELSE 1
       actev == IF v0 = 1 /\ Enabled(f)
                THEN (IF kind \in {1, 3, 5, 6} THEN <<EvAp(f.n, f.af, f.entry, cur, av)>>
                      ELSE IF kind \in {2, 4, 7} THEN <<EvA0(f.n, f.af, cur, av)>>
                      ELSE <<>>)
                ELSE <<>>
       c2 == IF v = 0 /\ f.mg >= 0 THEN f.mg ELSE cur       \* match()'s guard restores on failure
   IN
   /\ exc = NoExc /\ done = -1 /\ q = <<>> /\ f.pc = "after"
   /\ IF throws
      THEN \* the action throws: parse_error at the begin of the match (kind 6) or a foreign exception (kinds 5, 7)
           /\ exc' = [who |-> IF kind = 6 THEN D!XActParseError ELSE D!XActForeign, at |-> f.entry, cls |-> IF kind = 6 THEN 1 ELSE 3, m |-> 0, n |-> 0]
           /\ q' = actev
           \* the body has returned: the rule's own guard is gone, only match()'s guard (if any) is left to restore
           /\ fr' = SetTop([f EXCEPT !.pc = "thrown", !.sv = -1])
           /\ UNCHANGED <<cur, ret, done>>
      ELSE /\ cur' = c2
           /\ q' = actev \o (IF Enabled(f) THEN <<EvHook(IF v = 1 THEN "su" ELSE "fa", f.n, f.cf, cur)>> ELSE <<>>) \o <<EvEx(f.n, v, c2)>>
           /\ IF Len(fr) = 1
              THEN /\ fr' = <<>> /\ done' = v /\ ret' = v
              ELSE /\ fr' = Pop /\ ret' = v /\ UNCHANGED done
           /\ UNCHANGED exc

(* an exception in flight leaves one invocation per step: unwind hook, event xc; try_catch_return_false catches *)
Unwind ==
   LET f == Top
       catches == Nodes[f.n].iop = "try_catch_return_false" /\ f.pc = "k" /\ D!Catches(Nodes[f.n].ip[1], exc.who)
       nests == Nodes[f.n].iop = "try_catch_raise_nested" /\ f.pc = "k" /\ D!Catches(Nodes[f.n].ip[1], exc.who)
   IN
   /\ exc # NoExc /\ done = -1 /\ q = <<>>
   /\ IF nests
      THEN \* catch( ... ) { Control< Rule >::raise_nested( in.position( m.inputerator() ), st... ); }  -- no hook is called for it
           /\ exc' = [who |-> Nodes[f.n].ikids[1], at |-> f.sv, cls |-> 1, m |-> 0, n |-> 1]
           /\ fr' = SetTop([f EXCEPT !.pc = "thrown"])
           /\ UNCHANGED <<cur, ret, q, done>>
      ELSE IF catches
      THEN \* catch( ... ) { return false; }  -- the guard constructed before the try restores
           /\ cur' = IF f.sv >= 0 THEN f.sv ELSE cur
           /\ exc' = NoExc
           /\ fr' = SetTop([f EXCEPT !.pc = "after", !.i = 0])
           /\ UNCHANGED <<ret, q, done>>
      ELSE \* destructors run innermost first: the rule's own guard (seq, at, try_catch, ...) restores, then the unwind
           \* guard of match() calls Control::unwind, then match()'s guard restores; only then does the observer's catch run
           LET c1 == IF f.sv >= 0 THEN f.sv ELSE cur
               c2 == IF f.mg >= 0 THEN f.mg ELSE c1
           IN /\ q' = (IF Enabled(f) /\ HasUnw(f) THEN <<EvHook("uw", f.n, f.cf, c1)>> ELSE <<>>) \o <<EvXc(f.n, exc.cls, c2)>>
              /\ cur' = c2
              /\ IF Len(fr) = 1
                 THEN fr' = <<>> /\ done' = 2
                 ELSE fr' = Pop /\ UNCHANGED done
              /\ UNCHANGED <<ret, exc>>

\* the observer takes the oldest pending event
Emit == /\ q # <<>> /\ q' = Tail(q) /\ UNCHANGED <<fr, cur, ret, exc, done>>

MStep == Enter \/ Body \/ BodyPlusLoop \/ After \/ Unwind
=============================================================================
