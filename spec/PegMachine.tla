------------------------------ MODULE PegMachine ------------------------------
(***************************************************************************)
(* Operational layer: a small-step model of how PEGTL runs a grammar,      *)
(* written to be bound, not admired.  One transition per control-flow      *)
(* point of the real code:                                                 *)
(*                                                                         *)
(*   Control< Rule >::match   (the observation seam: events en / ex / xc)  *)
(*   match< Rule, ... >()     match.hpp: rewind guard iff an apply or a    *)
(*                            bool apply0 exists, start hook, the rule's   *)
(*                            body inside the unwind guard, the action     *)
(*                            (guarded as well since fix 34b9ca3), success *)
(*                            or failure hook, release / restore the guard *)
(*   Rule::match              one little program per internal template     *)
(*                            (internal/seq.hpp, sor.hpp, star_partial.hpp,*)
(*                            plus.hpp, partial.hpp, at.hpp, not_at.hpp,   *)
(*                            must.hpp, raise.hpp, try_catch_return_false, *)
(*                            and the atoms), with the rewind mode each    *)
(*                            sub-rule is called with                      *)
(*                                                                         *)
(* The machine works on the implementation view of the grammar table       *)
(* (fields iop, ikids, ip: what rule_t / subs_t say).  Every step may emit *)
(* events in the vocabulary of PegContract; MC_PegCore feeds them to the   *)
(* contract (design-level check), TraceMachine compares them with the      *)
(* events recorded from the real code (drift).                             *)
(***************************************************************************)
EXTENDS Integers, Sequences, FiniteSets, TLC

CONSTANTS Nodes    \* grammar table

VARIABLES W,       \* input bytes of the run               } fixed during a run; variables only because the
          Cfg,     \* [g, A, M, af, cf, eol, ib, il, ic]    } enclosing module chooses them per behaviour
          fr,      \* call stack: frames of rule invocations, innermost last
          cur,     \* cursor (offset)
          ret,     \* result of the invocation that just returned: 1 / 0, -1 none
          exc,     \* exception in flight: [who, at, cls, m, n] or NoExc
          q,       \* events emitted and not yet taken by the observer
          done,    \* the run is over: 1 / 0 / 2 (result), -1 while running
          aux      \* [nsid: serial number of the last state object created (vt::S1 / vt::S2 count their instances),
                   \*  end: logical end of the data (limit_bytes and rematch move it), dep: nesting depth counted by the depth
                   \*  guards, rm: number of rematch scopes the run is inside]

mvars == <<fr, cur, ret, exc, q, done, aux>>

D == INSTANCE PegDen WITH Nodes <- Nodes, W <- W

\* m = 1: the message names raise< T >'s T (Control< T >::raise), n = 1: thrown by raise_nested
NoExc == [who |-> 0, at |-> 0, cls |-> 0, m |-> 0, n |-> 0]
N == Len(W)
End == aux.end
Aux0 == [nsid |-> 0, end |-> Len(W), dep |-> 0, rm |-> 0]
\* the depth counter exists in input_with_depth only (Cfg.cls = 1); otherwise the observer logs -1
\* (the inner input of rematch is a plain memory_input again: rm counts the rematch scopes the run is in)
Dep == IF Cfg.cls = 1 /\ aux.rm = 0 THEN aux.dep ELSE -1
\* the control family is a property of the invocation: control< C, R > switches it for a sub-tree
\* (5, 6: the tracing control on top of must_if< Errors >::control, full visibility with unwind)
FullVis(f) == f.cf \in {3, 4, 5, 6}
HasUnw(f)  == f.cf \in {2, 4, 5, 6}
PosCtx == [eol |-> Cfg.eol, ib |-> Cfg.ib, il |-> Cfg.il, ic |-> Cfg.ic]

Enabled(f) == FullVis(f) \/ Nodes[f.n].en = 1
AKindOf(n, af) == D!AKind(n, af)

\* events, in the field layout of harness/vtrace.hpp
Cur3(o) == [b |-> D!PosByte(o, PosCtx), l |-> D!PosLine(o, PosCtx), c |-> D!PosCol(o, PosCtx)]
EvEn(n, A, M, af, cf, o, st) == [k |-> "en", r |-> n, A |-> A, M |-> M, b |-> Cur3(o).b, l |-> Cur3(o).l, c |-> Cur3(o).c, o |-> o, e |-> End,
                          af |-> af, cf |-> cf, d |-> Dep, s |-> st]
EvEx(n, v, o) == [k |-> "ex", r |-> n, v |-> v, b |-> Cur3(o).b, l |-> Cur3(o).l, c |-> Cur3(o).c, o |-> o, e |-> End, d |-> Dep]
EvXc(n, cls, o) == [k |-> "xc", r |-> n, x |-> cls, b |-> Cur3(o).b, l |-> Cur3(o).l, c |-> Cur3(o).c, o |-> o, e |-> End, d |-> Dep]
EvHook(k, n, cf, o) == [k |-> k, r |-> n, b |-> Cur3(o).b, l |-> Cur3(o).l, c |-> Cur3(o).c, o |-> o, e |-> End, cf |-> cf]
EvAp(n, af, beg, o, v, st) == [k |-> "ap", r |-> n, af |-> af, b |-> Cur3(beg).b, l |-> Cur3(beg).l, c |-> Cur3(beg).c, o |-> beg, eo |-> o,
                                n |-> o - beg, io |-> o, v |-> v, s |-> st]
EvA0(n, af, o, v, st) == [k |-> "a0", r |-> n, af |-> af, io |-> o, v |-> v, s |-> st]
\* the instrumented state classes log their construction (sid, position and outer state they were given; -1 / -1 when
\* default-constructed), success( in, outer states... ) and destruction
EvSc(sid, o, os) == [k |-> "sc", sid |-> sid, o |-> o, os |-> os]
EvSs(sid, o, os) == [k |-> "ss", sid |-> sid, b |-> Cur3(o).b, l |-> Cur3(o).l, c |-> Cur3(o).c, o |-> o, e |-> End, os |-> os]
EvSd(sid) == [k |-> "sd", sid |-> sid]
\* action family 8 (contrib/control_action.hpp): Action< Rule >::match brackets match< Rule >() with the action-side hooks
\* start, then success / failure, or unwind when an exception passes -- for every rule, whatever its control's visibility
EvCa(k, n, o) == [k |-> k, r |-> n, b |-> Cur3(o).b, l |-> Cur3(o).l, c |-> Cur3(o).c, o |-> o, e |-> End, cf |-> 0]
CaOn(f) == f.af = 8
\* actions listed in if_apply / apply / apply0 are called by the rule itself (internal/apply_single.hpp), they log themselves
EvIa(n, beg, o, v) == [k |-> "ia", n |-> n, b |-> Cur3(beg).b, l |-> Cur3(beg).l, c |-> Cur3(beg).c, o |-> beg, eo |-> o, v |-> v]
EvI0(n, v) == [k |-> "i0", n |-> n, v |-> v]
\* ( apply_single< Actions >::match( i2, st... ) && ... ): in order, up to and including the first that returns false
IaEvents(pp, beg, end, zero) ==
   [i \in 1..D!IaCalled(pp, end - beg, zero) |->
      LET v == IF pp[2*i-1] = 1 THEN 0 ELSE IF D!IaTrue(pp[2*i-1], pp[2*i], end - beg, zero) THEN 1 ELSE 2
      IN IF zero THEN EvI0(pp[2*i], v) ELSE EvIa(pp[2*i], beg, end, v)]

\* a frame: node, apply mode, requested rewind mode, action family, program counter, loop index,
\* sv: cursor saved by the rule's own guard (-1 none), mg: cursor saved by match()'s guard (-1 none), av: action result
\* s: the innermost state the invocation was given (0 none), ns: state object created by this invocation (0 none) and
\* nsk how: 1 the rule state< S, R >, 2 a state-switching action; re = 1: re-entry of Control< Rule >::match by a
\* change_action*: the switch is not applied again
FrameS(n, A, M, af, cf, st, re) == [n |-> n, A |-> A, M |-> M, af |-> af, cf |-> cf, pc |-> "enter", i |-> 0, lp |-> 0, sv |-> -1, mg |-> -1,
                                    entry |-> -1, s |-> st, ns |-> 0, nsk |-> 0, re |-> re, oe |-> -1, dg |-> 0, nouw |-> 0, rme |-> -1]
Frame(n, A, M, af, cf) == FrameS(n, A, M, af, cf, 0, 0)
\* rme: the end of the data while rematch runs its rules on the inner input (-1 otherwise)
\* oe: the end of the data saved by limit_bytes' guard (-1 none), dg = 1: holds a depth guard, nouw = 1: the exception in
\* flight was raised by the limit action outside match< Rule >(): no unwind hook, no guard of this invocation is left
KidS(f) == IF f.ns > 0 THEN f.ns ELSE f.s

Top == fr[Len(fr)]
SetTop(f) == [fr EXCEPT ![Len(fr)] = f]
Push(f) == Append(fr, f)
Pop == SubSeq(fr, 1, Len(fr) - 1)

MInit == /\ fr = <<Frame(Cfg.g, Cfg.A, Cfg.M, Cfg.af, Cfg.cf)>>
         /\ cur = 0 /\ ret = -1 /\ exc = NoExc /\ q = <<>> /\ done = -1 /\ aux = Aux0

\* the action Action< Rule > in family af: what the control dispatches after the body matched [beg, cur)
\* must_if< Errors >::control< Rule >::failure raises instead of returning: 5: iff Errors has a message for the rule, 6: iff
\* Errors::raise_on_failure< Rule >
MiRaises(f) == Enabled(f) /\ ((f.cf = 5 /\ Nodes[f.n].mihas = 1) \/ (f.cf = 6 /\ Nodes[f.n].mirof = 1))
\* family 5: a rule that carries a switch (table field sw) has the change_* class as its action: no apply / apply0
SwOf(f) == IF f.af = 5 /\ f.re = 0 THEN Nodes[f.n].sw ELSE 0
\* family 4: a rule that carries a limit (table field lim = kind * 1000 + N) has limit_depth< N > (1), limit_bytes< N > (2) or
\* check_bytes< N > (3) as its action; Control< limit_xxx< N > >::raise makes the observer log "ra" for that class
LimOf(f) == IF f.af = 4 THEN Nodes[f.n].lim ELSE 0
LimK(f) == LimOf(f) \div 1000
LimN(f) == LimOf(f) % 1000
LimClass(f) == LET nm == (IF LimK(f) = 1 THEN "tao::pegtl::limit_depth<" ELSE "tao::pegtl::limit_bytes<") \o ToString(LimN(f)) \o "ul>"
                   S == {m \in 1..Len(Nodes) : Nodes[m].name = nm}
               IN IF S = {} THEN 0 ELSE CHOOSE m \in S : TRUE
Min2(a, b) == IF a < b THEN a ELSE b
ActKind(f) == IF f.A = 1 /\ Enabled(f) /\ ~(f.af = 5 /\ Nodes[f.n].sw > 0) /\ f.af \notin {4, 8} THEN AKindOf(f.n, f.af) ELSE 0
UseGuard(f) == ActKind(f) \in {1, 3, 4, 5, 6}         \* has_apply || has_apply0_bool   (2, 7: void apply0 -> no guard)
\* rewind mode the body gets from match(): optional if match() took the guard, else the requested mode
BodyM(f) == IF Enabled(f) /\ UseGuard(f) THEN 0 ELSE f.M

-----------------------------------------------------------------------------
(* Control< Rule >::match and match< Rule >(): entering *)
Enter ==
   LET f == Top
       sw == SwOf(f)                    \* normal< Rule >::match: Action< Rule >::match, if there is one, takes over (whatever A and enable are)
       sid == aux.nsid + 1
       mkstate == sw \in {1, 2, 4, 5, 9, 10}
       \* change_state< S1 > / change_action_and_state< A, S1 >: S1( in, st... ); change_states / S2: default-constructed
       sc == IF sw \in {1, 4} THEN <<EvSc(sid, cur, f.s)>> ELSE IF mkstate THEN <<EvSc(sid, -1, -1)>> ELSE <<>>
       en == EvEn(f.n, f.A, f.M, f.af, f.cf, cur, f.s)
       \* change_control / enable_action / disable_action call match< Rule >() with one parameter changed
       lk == LimK(f)
       depth == lk = 1 /\ Enabled(f)                 \* limit_depth counts rules whose control is enabled only
       tooDeep == depth /\ aux.dep + 1 > LimN(f)
       end2 == IF lk = 2 THEN cur + Min2(End - cur, LimN(f)) ELSE End
       g == [f EXCEPT !.cf = IF sw = 6 THEN 2 ELSE f.cf, !.A = IF sw = 7 THEN 1 ELSE IF sw = 8 THEN 0 ELSE f.A,
                      !.ns = IF mkstate THEN sid ELSE 0, !.nsk = IF mkstate THEN 2 ELSE 0, !.entry = cur,
                      !.oe = IF lk = 2 THEN End ELSE -1, !.dg = IF depth /\ ~tooDeep THEN 1 ELSE 0]
   IN
   /\ exc = NoExc /\ done = -1 /\ q = <<>> /\ f.pc = "enter"
   /\ aux' = [aux EXCEPT !.nsid = IF mkstate THEN sid ELSE @, !.end = end2, !.dep = IF depth /\ ~tooDeep THEN @ + 1 ELSE @]
   /\ IF tooDeep
      THEN \* limit_depth: the guard counts this level, the check raises, the guard is undone on the way out
           /\ fr' = SetTop([g EXCEPT !.pc = "thrown", !.nouw = 1])
           /\ q' = <<en, EvHook("ra", LimClass(f), f.cf, cur)>>
           /\ exc' = [who |-> D!XDepth, at |-> cur, cls |-> 1, m |-> 0, n |-> 0]
      ELSE /\ exc' = exc
           /\ IF sw \in {3, 4, 5, 10}
              THEN \* change_action*: Control< Rule >::match< A, M, NewAction, Control >( in, [s] ): the same rule is entered again
                   /\ fr' = Append(SetTop([g EXCEPT !.pc = "sw"]), FrameS(f.n, f.A, f.M, 1, f.cf, KidS(g), 1))
                   /\ q' = <<en>> \o sc
              ELSE \* match< Rule >(): guard iff there is an apply or a bool apply0, start hook (limit_bytes has moved the end)
                   /\ fr' = SetTop([g EXCEPT !.pc = "body", !.mg = IF Enabled(g) /\ UseGuard(g) THEN cur ELSE -1])
                   /\ q' = <<en>> \o sc \o (IF CaOn(f) THEN <<EvCa("cst", f.n, cur)>> ELSE <<>>)
                           \o (IF Enabled(g) THEN <<[EvHook("st", f.n, g.cf, cur) EXCEPT !.e = end2]>> ELSE <<>>)
   /\ ret' = -1
   /\ UNCHANGED <<cur, done>>

\* result of an atom at the cursor: <<matched?, new cursor>>  (one size / peek test, then one bump)
AtomStep(n) ==
   LET r == D!DenX(D!Lift(n), cur, [A |-> 0, lim |-> End, fam |-> 0, vis |-> 0, eol |-> Cfg.eol, ib |-> Cfg.ib, il |-> Cfg.il, ic |-> Cfg.ic, dep |-> 0, mi |-> 0], 3)
   IN IF r.k = "T" THEN <<1, r.e>> ELSE <<0, cur>>
\* rules without sub-rules that match in one step (their peeks and bumps are not modelled individually)
NonAtoms == {"raise", "apply", "apply0", "opaque", "seq", "sor", "raw_string"}     \* raw_string calls its helper rules through the control
IsAtom(n) == Nodes[n].ikids = <<>> /\ Nodes[n].iop \notin NonAtoms
\* internal rules that are called without being listed in subs_t: found in the table by their shape
NotAtOf(r) == {m \in 1..Len(Nodes) : Nodes[m].iop = "not_at" /\ Nodes[m].ikids = <<r>> /\ Nodes[m].en = 0}

\* strict / star_strict call internal::seq< Rules... > over all but their first sub-rule
RestOf(ks) == {m \in 1..Len(Nodes) : Nodes[m].iop = "seq" /\ Nodes[m].ikids = Tail(ks) /\ Nodes[m].en = 0}

\* return from the body with value v (the body's frame stays: match() continues in "after")
BodyDone(f, v) == /\ fr' = SetTop([f EXCEPT !.pc = "after", !.i = v])
                  /\ UNCHANGED <<ret, exc, q, done>>

\* call sub-rule number j of the current frame with modes (A, M)
CallKid(f, j, A, M, pc2) ==
   /\ fr' = Append(SetTop([f EXCEPT !.pc = pc2, !.i = j]), FrameS(Nodes[f.n].ikids[j], A, M, f.af, f.cf, KidS(f), 0))
   /\ ret' = -1
   /\ UNCHANGED <<cur, exc, q, done>>

(* Rule::match -- one program per internal template; pc "body" starts it, "k" resumes after sub-rule f.i returned ret *)
Body ==
   LET f == Top
       op == Nodes[f.n].iop
       ks == Nodes[f.n].ikids
       nk == Len(ks)
       M == BodyM(f)
   IN
   /\ exc = NoExc /\ done = -1 /\ q = <<>> /\ f.pc \in {"body", "k"}
   /\ aux' = IF op = "state" /\ f.pc = "body" THEN [aux EXCEPT !.nsid = @ + 1]
             ELSE IF op = "rematch" /\ nk > 1 /\ f.pc = "k" /\ f.i = 1 /\ ret = 1 THEN [aux EXCEPT !.end = cur, !.rm = @ + 1]      \* i2( begin of the match, current )
             ELSE IF op = "rematch" /\ nk > 1 /\ f.pc = "k" /\ f.i > 1 /\ (ret = 0 \/ f.i = nk) THEN [aux EXCEPT !.end = f.rme, !.rm = @ - 1]   \* i2 is gone
             ELSE aux
   /\ CASE IsAtom(f.n) ->
             LET a == AtomStep(f.n) IN cur' = a[2] /\ BodyDone(f, a[1])
        \* internal/seq.hpp: one rule forwards M; otherwise guard< M >, all sub-rules optional
        [] op = "seq" ->
             IF nk = 0 THEN cur' = cur /\ BodyDone(f, 1)
             ELSE IF nk = 1 THEN
                  IF f.pc = "body" THEN CallKid(f, 1, f.A, M, "k") ELSE cur' = cur /\ BodyDone(f, ret)
             ELSE IF f.pc = "body" THEN CallKid([f EXCEPT !.sv = IF M = 1 THEN cur ELSE -1], 1, f.A, 0, "k")
             ELSE IF ret = 0 THEN /\ cur' = IF f.sv >= 0 THEN f.sv ELSE cur
                                  /\ BodyDone(f, 0)
             ELSE IF f.i = nk THEN cur' = cur /\ BodyDone(f, 1)
             ELSE CallKid(f, f.i + 1, f.A, 0, "k")
        \* internal/sor.hpp: required for all but the last alternative, M for the last; no guard
        [] op = "sor" ->
             IF nk = 0 THEN cur' = cur /\ BodyDone(f, 0)
             ELSE IF f.pc = "body" THEN CallKid(f, 1, f.A, IF nk = 1 THEN M ELSE 1, "k")
             ELSE IF ret = 1 THEN cur' = cur /\ BodyDone(f, 1)
             ELSE IF f.i = nk THEN cur' = cur /\ BodyDone(f, 0)
             ELSE CallKid(f, f.i + 1, f.A, IF f.i + 1 = nk THEN M ELSE 1, "k")
        \* internal/star_partial.hpp (star< R > derives from it): while( ( match< required >( R ) && ... ) ); return true
        [] op \in {"star", "star_partial"} ->
             IF f.pc = "body" THEN CallKid(f, 1, f.A, 1, "k")
             ELSE IF ret = 0 THEN cur' = cur /\ BodyDone(f, 1)
             ELSE CallKid(f, IF f.i = nk THEN 1 ELSE f.i + 1, f.A, 1, "k")
        \* internal/plus.hpp: first M, then required
        [] op = "plus" ->
             IF f.pc = "body" THEN CallKid(f, 1, f.A, M, "k")
             ELSE IF f.i = 1 /\ ret = 0 THEN cur' = cur /\ BodyDone(f, 0)        \* f.i = 1: the first attempt
             ELSE IF ret = 0 THEN cur' = cur /\ BodyDone(f, 1)
             ELSE CallKid(f, 1, f.A, 1, "k2")
        \* internal/partial.hpp (opt< R > derives from it): (void)( match< required >( R ) && ... ); return true
        [] op \in {"opt", "partial"} ->
             IF f.pc = "body" THEN CallKid(f, 1, f.A, 1, "k")
             ELSE IF ret = 0 \/ f.i = nk THEN cur' = cur /\ BodyDone(f, 1)
             ELSE CallKid(f, f.i + 1, f.A, 1, "k")
        \* internal/at.hpp, not_at.hpp: required guard that is never released, sub-rule with apply_mode::nothing, optional
        [] op \in {"at", "not_at"} ->
             IF f.pc = "body" THEN CallKid([f EXCEPT !.sv = cur], 1, 0, 0, "k")
             ELSE /\ cur' = f.sv
                  /\ BodyDone(f, IF op = "at" THEN ret ELSE 1 - ret)
        \* internal/must.hpp: sub-rule optional; on failure Control< Rule >::raise
        [] op = "must" ->
             IF f.pc = "body" THEN CallKid(f, 1, f.A, 0, "k")
             ELSE IF ret = 1 THEN cur' = cur /\ BodyDone(f, 1)
             ELSE /\ exc' = [who |-> ks[1], at |-> cur, cls |-> 1, m |-> 0, n |-> 0]
                  /\ q' = <<EvHook("ra", ks[1], f.cf, cur)>>
                  /\ fr' = SetTop([f EXCEPT !.pc = "thrown"])
                  /\ UNCHANGED <<cur, ret, done>>
        \* internal/raise.hpp: Control< T >::raise
        [] op = "raise" ->
             /\ exc' = [who |-> f.n, at |-> cur, cls |-> 1, m |-> 1, n |-> 0]
             /\ q' = <<EvHook("ra", Nodes[f.n].ip[1], f.cf, cur)>>
             /\ fr' = SetTop([f EXCEPT !.pc = "thrown"])
             /\ UNCHANGED <<cur, ret, done>>
        \* internal/if_must.hpp: Cond with M (required when the default result is success, fix e45e59f), then must< Rules... >
        [] op \in {"if_must", "opt_must"} ->
             IF f.pc = "body" THEN CallKid(f, 1, f.A, IF op = "opt_must" THEN 1 ELSE M, "k")
             ELSE IF f.i = 1 /\ ret = 0 THEN cur' = cur /\ BodyDone(f, IF op = "opt_must" THEN 1 ELSE 0)
             ELSE IF f.i = 1 THEN CallKid(f, 2, f.A, M, "k")
             ELSE cur' = cur /\ BodyDone(f, 1)
        \* internal/until.hpp: guard< M >; Cond required; without Rules bump one byte, fail at the end of the input
        [] op = "until" ->
             IF f.pc = "body" THEN CallKid([f EXCEPT !.sv = IF M = 1 THEN cur ELSE -1], 1, f.A, 1, "k")
             ELSE IF f.i = 1 /\ ret = 1 THEN cur' = cur /\ BodyDone(f, 1)
             ELSE IF f.i = 1 /\ nk = 1
                  THEN IF cur = End THEN /\ cur' = IF f.sv >= 0 THEN f.sv ELSE cur
                                       /\ BodyDone(f, 0)
                       ELSE /\ cur' = cur + 1
                            /\ fr' = Append(SetTop([f EXCEPT !.pc = "k", !.i = 1]), FrameS(ks[1], f.A, 1, f.af, f.cf, KidS(f), 0))
                            /\ ret' = -1 /\ UNCHANGED <<exc, q, done>>
             ELSE IF f.i = 1 THEN CallKid(f, 2, f.A, 0, "k")
             ELSE IF ret = 0 THEN /\ cur' = IF f.sv >= 0 THEN f.sv ELSE cur
                                  /\ BodyDone(f, 0)
             ELSE CallKid(f, 1, f.A, 1, "k")
        \* internal/rep.hpp: guard< M >, Cnt times optional
        [] op = "rep" ->
             IF f.pc = "body" THEN CallKid([f EXCEPT !.sv = IF M = 1 THEN cur ELSE -1, !.lp = 1], 1, f.A, 0, "k")
             ELSE IF ret = 0 THEN /\ cur' = IF f.sv >= 0 THEN f.sv ELSE cur
                                  /\ BodyDone(f, 0)
             ELSE IF f.lp = Nodes[f.n].ip[1] THEN cur' = cur /\ BodyDone(f, 1)
             ELSE CallKid([f EXCEPT !.lp = f.lp + 1], 1, f.A, 0, "k")
        \* internal/rep_opt.hpp: up to Max times required; always true
        [] op = "rep_opt" ->
             IF f.pc = "body" THEN CallKid([f EXCEPT !.lp = 1], 1, f.A, 1, "k")
             ELSE IF ret = 0 \/ f.lp = Nodes[f.n].ip[1] THEN cur' = cur /\ BodyDone(f, 1)
             ELSE CallKid([f EXCEPT !.lp = f.lp + 1], 1, f.A, 1, "k")
        \* internal/rep_min_max.hpp: guard< M >; Min times optional, up to Max required (stop => true), then not_at< Rule >
        [] op = "rep_min_max" ->
             LET mn == Nodes[f.n].ip[1]  mx == Nodes[f.n].ip[2] IN
             IF f.pc = "body" /\ mx = 0 THEN cur' = cur /\ BodyDone(f, 0)          \* (< Min, Max > with an empty pack is failure)
             ELSE IF f.pc = "body" THEN CallKid([f EXCEPT !.sv = IF M = 1 THEN cur ELSE -1, !.lp = 1], 1, f.A, IF mn >= 1 THEN 0 ELSE 1, "k")
             ELSE IF f.lp = mx + 1                                                \* the trailing not_at< Rule > returned
                  THEN /\ cur' = IF ret = 0 /\ f.sv >= 0 THEN f.sv ELSE cur
                       /\ BodyDone(f, ret)
             ELSE IF ret = 0 /\ f.lp <= mn THEN /\ cur' = IF f.sv >= 0 THEN f.sv ELSE cur
                                                /\ BodyDone(f, 0)
             ELSE IF ret = 0 THEN cur' = cur /\ BodyDone(f, 1)
             ELSE IF f.lp = mx
                  THEN /\ NotAtOf(ks[1]) # {}
                       /\ fr' = Append(SetTop([f EXCEPT !.pc = "k", !.lp = mx + 1]), FrameS(CHOOSE m \in NotAtOf(ks[1]) : TRUE, f.A, 0, f.af, f.cf, KidS(f), 0))
                       /\ ret' = -1 /\ UNCHANGED <<cur, exc, q, done>>
             ELSE CallKid([f EXCEPT !.lp = f.lp + 1], 1, f.A, IF f.lp + 1 <= mn THEN 0 ELSE 1, "k")
        \* internal/if_then_else.hpp: guard< M >; Cond required; Then / Else optional; Else is not tried after Then failed
        [] op = "if_then_else" ->
             IF f.pc = "body" THEN CallKid([f EXCEPT !.sv = IF M = 1 THEN cur ELSE -1], 1, f.A, 1, "k")
             ELSE IF f.i = 1 THEN CallKid(f, IF ret = 1 THEN 2 ELSE 3, f.A, 0, "k")
             ELSE /\ cur' = IF ret = 0 /\ f.sv >= 0 THEN f.sv ELSE cur
                  /\ BodyDone(f, ret)
        \* internal/enable.hpp, disable.hpp, action.hpp, control.hpp: one parameter of the run switched for the sub-tree, M forwarded
        [] op \in {"enable", "disable", "action", "control"} ->
             IF f.pc = "body"
             THEN /\ fr' = Append(SetTop([f EXCEPT !.pc = "k", !.i = 1]),
                                  FrameS(ks[1], IF op = "enable" THEN 1 ELSE IF op = "disable" THEN 0 ELSE f.A, M,
                                         IF op = "action" THEN Nodes[f.n].ip[1] ELSE f.af,
                                         IF op = "control" THEN Nodes[f.n].ip[1] ELSE f.cf, KidS(f), 0))
                  /\ ret' = -1 /\ UNCHANGED <<cur, exc, q, done>>
             ELSE cur' = cur /\ BodyDone(f, ret)
        \* internal/try_catch_raise_nested.hpp: required guard; sub-rule optional (a caught exception is handled in Unwind)
        [] op = "try_catch_raise_nested" ->
             IF f.pc = "body" THEN CallKid([f EXCEPT !.sv = cur], 1, f.A, 0, "k")
             ELSE /\ cur' = IF ret = 0 THEN f.sv ELSE cur
                  /\ BodyDone(f, ret)
        \* internal/try_catch_return_false.hpp: guard< M > outside the try, sub-rule optional
        [] op = "try_catch_return_false" ->
             IF f.pc = "body" THEN CallKid([f EXCEPT !.sv = IF M = 1 THEN cur ELSE -1], 1, f.A, 0, "k")
             ELSE /\ cur' = IF ret = 0 /\ f.sv >= 0 THEN f.sv ELSE cur
                  /\ BodyDone(f, ret)
        \* internal/strict.hpp: guard< M >; Rule required; then seq< Rules... > (an internal rule, called through the control,
        \* not listed in subs_t) optional; Rule failing is success, the rest failing restores
        [] op = "strict" ->
             IF f.pc = "body" THEN CallKid([f EXCEPT !.sv = IF M = 1 THEN cur ELSE -1], 1, f.A, 1, "k")
             ELSE IF f.i = 1
                  THEN IF ret = 0 THEN cur' = cur /\ BodyDone(f, 1)
                       ELSE /\ RestOf(ks) # {}
                            /\ fr' = Append(SetTop([f EXCEPT !.pc = "k", !.i = 2]), FrameS(CHOOSE m \in RestOf(ks) : TRUE, f.A, 0, f.af, f.cf, KidS(f), 0))
                            /\ ret' = -1 /\ UNCHANGED <<cur, exc, q, done>>
             ELSE /\ cur' = IF ret = 0 /\ f.sv >= 0 THEN f.sv ELSE cur
                  /\ BodyDone(f, ret)
        \* internal/star_strict.hpp: the same in a loop; Rule failing ends the loop with success
        [] op = "star_strict" ->
             IF f.pc = "body" THEN CallKid([f EXCEPT !.sv = IF M = 1 THEN cur ELSE -1], 1, f.A, 1, "k")
             ELSE IF f.i = 1
                  THEN IF ret = 0 THEN cur' = cur /\ BodyDone(f, 1)
                       ELSE /\ RestOf(ks) # {}
                            /\ fr' = Append(SetTop([f EXCEPT !.pc = "k", !.i = 2]), FrameS(CHOOSE m \in RestOf(ks) : TRUE, f.A, 0, f.af, f.cf, KidS(f), 0))
                            /\ ret' = -1 /\ UNCHANGED <<cur, exc, q, done>>
             ELSE IF ret = 1 THEN CallKid(f, 1, f.A, 1, "k")
             ELSE /\ cur' = IF f.sv >= 0 THEN f.sv ELSE cur
                  /\ BodyDone(f, 0)
        \* internal/rematch.hpp: required guard; Head optional; then every further rule from the start of what Head matched, on
        \* an input that ends where Head ended; the outer input stays behind Head's match, or is restored
        [] op = "rematch" ->
             IF nk = 1 THEN (IF f.pc = "body" THEN CallKid(f, 1, f.A, M, "k") ELSE cur' = cur /\ BodyDone(f, ret))
             ELSE IF f.pc = "body" THEN CallKid([f EXCEPT !.sv = cur], 1, f.A, 0, "k")
             ELSE IF f.i = 1
                  THEN IF ret = 0 THEN cur' = f.sv /\ BodyDone(f, 0)
                       ELSE /\ cur' = f.sv
                            /\ fr' = Append(SetTop([f EXCEPT !.pc = "k", !.i = 2, !.lp = cur, !.rme = End]), FrameS(ks[2], f.A, 0, f.af, f.cf, KidS(f), 0))
                            /\ ret' = -1 /\ UNCHANGED <<exc, q, done>>
             ELSE IF ret = 0 THEN cur' = f.sv /\ BodyDone([f EXCEPT !.rme = -1], 0)
             ELSE IF f.i = nk THEN cur' = f.lp /\ BodyDone([f EXCEPT !.rme = -1], 1)
             ELSE /\ cur' = f.sv          \* i2.restart( m )
                  /\ fr' = Append(SetTop([f EXCEPT !.pc = "k", !.i = f.i + 1]), FrameS(ks[f.i + 1], f.A, 0, f.af, f.cf, KidS(f), 0))
                  /\ ret' = -1 /\ UNCHANGED <<exc, q, done>>
        \* internal/state.hpp: NewState s( in, st... ) or, if it cannot be constructed that way, NewState s; the sub-rule with
        \* s as its only state and M forwarded; s.success( in, st... ) on success; s dies when match() returns
        [] op = "state" ->
             IF f.pc = "body"
             THEN LET sid == aux.nsid + 1 IN
                  /\ q' = IF Nodes[f.n].ip = <<1>> THEN <<EvSc(sid, -1, -1)>> ELSE <<EvSc(sid, cur, f.s)>>
                  /\ fr' = Append(SetTop([f EXCEPT !.pc = "k", !.i = 1, !.ns = sid, !.nsk = 1]), FrameS(ks[1], f.A, M, f.af, f.cf, sid, 0))
                  /\ ret' = -1 /\ UNCHANGED <<cur, exc, done>>
             ELSE /\ cur' = cur
                  /\ q' = (IF ret = 1 THEN <<EvSs(f.ns, cur, f.s)>> ELSE <<>>) \o <<EvSd(f.ns)>>
                  /\ fr' = SetTop([f EXCEPT !.pc = "after", !.i = ret])
                  /\ UNCHANGED <<ret, exc, done>>
        \* internal/apply.hpp, apply0.hpp: with actions enabled the listed actions run on an empty match; nothing is consumed
        [] op \in {"apply", "apply0"} ->
             LET pp == Nodes[f.n].ip
                 zero == op = "apply0"
             IN IF f.A = 1 /\ pp # <<>>
                THEN /\ cur' = cur
                     /\ q' = IaEvents(pp, cur, cur, zero)
                     /\ fr' = SetTop([f EXCEPT !.pc = "after", !.i = IF D!IaAll(pp, 0, zero) THEN 1 ELSE 0])
                     /\ UNCHANGED <<ret, exc, done>>
                ELSE cur' = cur /\ BodyDone(f, 1)
        \* internal/if_apply.hpp: with actions enabled and listed: required guard, sub-rule optional, then the listed actions
        \* on the matched range, a false one restores; otherwise the sub-rule is simply forwarded to
        [] op = "if_apply" ->
             LET pp == Nodes[f.n].ip IN
             IF f.A = 1 /\ pp # <<>>
             THEN IF f.pc = "body" THEN CallKid([f EXCEPT !.sv = cur], 1, 1, 0, "k")
                  ELSE IF ret = 0 THEN cur' = f.sv /\ BodyDone(f, 0)
                  ELSE LET ok == D!IaAll(pp, cur - f.sv, FALSE) IN
                       /\ cur' = IF ok THEN cur ELSE f.sv
                       /\ q' = IaEvents(pp, f.sv, cur, FALSE)
                       /\ fr' = SetTop([f EXCEPT !.pc = "after", !.i = IF ok THEN 1 ELSE 0])
                       /\ UNCHANGED <<ret, exc, done>>
             ELSE IF f.pc = "body" THEN CallKid(f, 1, f.A, M, "k") ELSE cur' = cur /\ BodyDone(f, ret)
\* plus.hpp resumes its loop under a different label so that "the first attempt" can be told apart
BodyPlusLoop ==
   LET f == Top IN
   /\ exc = NoExc /\ done = -1 /\ q = <<>> /\ f.pc = "k2" /\ UNCHANGED aux
   /\ IF ret = 0 THEN cur' = cur /\ BodyDone(f, 1) ELSE CallKid(f, 1, f.A, 1, "k2")

(* match< Rule >() after the body: action, success / failure hook, guard; then what a limit action does after match()
   returned; then Control< Rule >::match returns *)
After ==
   LET f == Top
       v0 == f.i                                   \* what the body returned
       kind == ActKind(f)
       len == cur - f.entry
       vid == Nodes[f.n].vid
       veto == v0 = 1 /\ ((kind = 3 /\ (len + vid) % 3 = 0) \/ (kind = 4 /\ vid % 3 = 0))
       throws == v0 = 1 /\ ((kind \in {5, 6} /\ (len + vid) % 3 = 0) \/ (kind = 7 /\ vid % 3 = 0))
       v == IF veto THEN 0 ELSE v0
       av == IF throws THEN 3 ELSE IF kind \in {1, 2, 5, 6, 7} THEN 0 ELSE IF veto THEN 2 ELSE 1
       actev == IF v0 = 1 /\ Enabled(f)
                THEN (IF kind \in {1, 3, 5, 6} THEN <<EvAp(f.n, f.af, f.entry, cur, av, f.s)>>
                      ELSE IF kind \in {2, 4, 7} THEN <<EvA0(f.n, f.af, cur, av, f.s)>>
                      ELSE <<>>)
                ELSE <<>>
       c2 == IF v = 0 /\ f.mg >= 0 THEN f.mg ELSE cur       \* match()'s guard restores on failure
       lk == LimK(f)
       \* limit_bytes: matched, the (moved) end reached, and it is not the real end; check_bytes: matched more than N bytes
       limx == IF lk = 2 /\ v = 1 /\ cur = End /\ f.oe # cur THEN D!XBytes
               ELSE IF lk = 3 /\ v = 1 /\ cur - f.entry > LimN(f) THEN D!XCheck ELSE 0
       aux2 == [aux EXCEPT !.end = IF f.oe >= 0 THEN f.oe ELSE @, !.dep = IF f.dg = 1 THEN @ - 1 ELSE @]     \* the limit's guards are undone
       hook == IF Enabled(f) THEN <<EvHook(IF v = 1 THEN "su" ELSE "fa", f.n, f.cf, cur)>> ELSE <<>>
   IN
   /\ exc = NoExc /\ done = -1 /\ q = <<>> /\ f.pc = "after"
   /\ IF throws
      THEN \* the action throws: parse_error at the begin of the match (kind 6) or a foreign exception (kinds 5, 7)
           /\ exc' = [who |-> IF kind = 6 THEN D!XActParseError ELSE D!XActForeign, at |-> f.entry, cls |-> IF kind = 6 THEN 1 ELSE 3, m |-> 0, n |-> 0]
           /\ q' = actev
           \* the body has returned: the rule's own guard is gone, only match()'s guard (if any) is left to restore
           /\ fr' = SetTop([f EXCEPT !.pc = "thrown", !.sv = -1])
           /\ UNCHANGED <<cur, ret, done, aux>>
      ELSE IF v = 0 /\ MiRaises(f)
      THEN \* must_if: the failure hook throws parse_error( Errors::message< Rule > or the rule's own message, in ); match()'s
           \* guard, if there is one, restores as its destructor runs; no unwind hook for this invocation
           /\ exc' = [who |-> f.n, at |-> cur, cls |-> 1, m |-> 0, n |-> 0]
           /\ q' = actev \o hook
           /\ fr' = SetTop([f EXCEPT !.pc = "thrown", !.sv = -1, !.nouw = 1])
           /\ UNCHANGED <<cur, ret, done, aux>>
      ELSE IF limx # 0
      THEN \* the limit action raises after match() returned true: no hook and no guard of this invocation is involved any more
           /\ exc' = [who |-> limx, at |-> cur, cls |-> 1, m |-> 0, n |-> 0]
           /\ q' = actev \o hook \o (IF lk = 2 THEN <<EvHook("ra", LimClass(f), f.cf, cur)>> ELSE <<>>)
           /\ fr' = SetTop([f EXCEPT !.pc = "thrown", !.sv = -1, !.mg = -1, !.nouw = 1, !.oe = -1, !.dg = 0])
           /\ aux' = aux2
           /\ UNCHANGED <<cur, ret, done>>
      ELSE /\ cur' = c2
           \* a state-switching action: Action< Rule >::success( in, s, st... ) if matched and A is action; then s dies
           /\ q' = actev \o hook
                   \o (IF f.nsk = 2 /\ v = 1 /\ f.A = 1 THEN <<EvSs(f.ns, c2, f.s)>> ELSE <<>>)
                   \o (IF f.nsk = 2 THEN <<EvSd(f.ns)>> ELSE <<>>)
                   \o (IF CaOn(f) THEN <<EvCa(IF v = 1 THEN "csu" ELSE "cfa", f.n, c2)>> ELSE <<>>)
                   \o <<[EvEx(f.n, v, c2) EXCEPT !.e = aux2.end, !.d = IF Cfg.cls = 1 THEN aux2.dep ELSE -1]>>
           /\ aux' = aux2
           /\ IF Len(fr) = 1
              THEN /\ fr' = <<>> /\ done' = v /\ ret' = v
              ELSE /\ fr' = Pop /\ ret' = v /\ UNCHANGED done
           /\ UNCHANGED exc

(* an exception in flight leaves one invocation per step: unwind hook, event xc; try_catch_return_false catches *)
Unwind ==
   LET f == Top
       catches == Nodes[f.n].iop = "try_catch_return_false" /\ f.pc = "k" /\ D!Catches(Nodes[f.n].ip[1], exc.who)
       nests == Nodes[f.n].iop = "try_catch_raise_nested" /\ f.pc = "k" /\ D!Catches(Nodes[f.n].ip[1], exc.who)
   IN
   /\ exc # NoExc /\ done = -1 /\ q = <<>>
   /\ aux' = IF nests \/ catches THEN aux
             ELSE [aux EXCEPT !.end = IF f.oe >= 0 THEN f.oe ELSE IF f.rme >= 0 THEN f.rme ELSE @,              \* a limit's guards are undone,
                              !.dep = IF f.dg = 1 THEN @ - 1 ELSE @, !.rm = IF f.rme >= 0 THEN @ - 1 ELSE @]           \* rematch's inner input is gone
   /\ IF nests
      THEN \* catch( ... ) { Control< Rule >::raise_nested( in.position( m.inputerator() ), st... ); }  -- no hook is called for it
           /\ exc' = [who |-> Nodes[f.n].ikids[1], at |-> f.sv, cls |-> 1, m |-> 0, n |-> 1]
           /\ fr' = SetTop([f EXCEPT !.pc = "thrown"])
           /\ UNCHANGED <<cur, ret, q, done>>
      ELSE IF catches
      THEN \* catch( ... ) { return false; }  -- the guard constructed before the try restores
           /\ cur' = IF f.sv >= 0 THEN f.sv ELSE cur
           /\ exc' = NoExc
           /\ fr' = SetTop([f EXCEPT !.pc = "after", !.i = 0])
           /\ UNCHANGED <<ret, q, done>>
      ELSE \* destructors run innermost first: the rule's own guard (seq, at, try_catch, ...) restores, then the unwind
           \* guard of match() calls Control::unwind, then match()'s guard restores; only then does the observer's catch run
           LET c1 == IF f.sv >= 0 THEN f.sv ELSE cur
               c2 == IF f.mg >= 0 THEN f.mg ELSE c1
              \* a state object dies where its scope is left: state< S, R >'s inside the rule (before the unwind hook), a
              \* switching action's outside match() (after it); the outer invocation of a change_action* never ran match()
           IN /\ q' = (IF f.nsk = 1 /\ f.pc = "k" THEN <<EvSd(f.ns)>> ELSE <<>>)
                      \o (IF f.pc # "sw" /\ f.nouw = 0 /\ Enabled(f) /\ HasUnw(f) THEN <<[EvHook("uw", f.n, f.cf, c1) EXCEPT !.e = IF f.rme >= 0 THEN f.rme ELSE End]>> ELSE <<>>)     \* (rematch's own input never changed its end)
                      \o (IF f.nsk = 2 THEN <<EvSd(f.ns)>> ELSE <<>>)
                      \o (IF CaOn(f) THEN <<EvCa("cuw", f.n, c2)>> ELSE <<>>)
                      \o <<[EvXc(f.n, exc.cls, c2) EXCEPT !.e = aux'.end, !.d = IF Cfg.cls = 1 THEN aux'.dep ELSE -1]>>
              /\ cur' = c2
              /\ IF Len(fr) = 1
                 THEN fr' = <<>> /\ done' = 2
                 ELSE fr' = Pop /\ UNCHANGED done
              /\ UNCHANGED <<ret, exc>>

(* the outer invocation of a change_action*: the re-entered Control< Rule >::match returned *)
SwReturn ==
   LET f == Top IN
   /\ exc = NoExc /\ done = -1 /\ q = <<>> /\ f.pc = "sw" /\ UNCHANGED aux
   /\ q' = (IF f.nsk = 2 /\ ret = 1 /\ f.A = 1 THEN <<EvSs(f.ns, cur, f.s)>> ELSE <<>>)
           \o (IF f.nsk = 2 THEN <<EvSd(f.ns)>> ELSE <<>>)
           \o <<EvEx(f.n, ret, cur)>>
   /\ IF Len(fr) = 1
      THEN fr' = <<>> /\ done' = ret
      ELSE fr' = Pop /\ UNCHANGED done
   /\ UNCHANGED <<cur, ret, exc>>

\* the observer takes the oldest pending event
Emit == /\ q # <<>> /\ q' = Tail(q) /\ UNCHANGED <<fr, cur, ret, exc, done, aux>>

MStep == Enter \/ Body \/ BodyPlusLoop \/ After \/ SwReturn \/ Unwind
=============================================================================
