---------------------------- MODULE TraceContract ----------------------------
(***************************************************************************)
(* Trace validation (code -> spec): replays an ndjson trace recorded from  *)
(* the real PEGTL (harness/vtrace.hpp) through PegContract.  Every logged  *)
(* field is bound, nothing is predicted, so the search is linear.          *)
(*                                                                         *)
(* Acceptance (POSTCONDITION): every line was consumed and the verdict log *)
(* was exported.  Environment: TRACE, TABLE, OUT.                          *)
(***************************************************************************)
EXTENDS Integers, Sequences, TLC, Json, IOUtils

VARIABLES l, stk, cs, lastx, verd, cnt
vars == <<l, stk, cs, lastx, verd, cnt>>

Tr         == ndJsonDeserialize(IOEnv.TRACE)
TableNodes == JsonDeserialize(IOEnv.TABLE).nodes

C == INSTANCE PegContract WITH Nodes <- TableNodes

TInit == l = 1 /\ C!CInit
TNext == /\ l <= Len(Tr)
         /\ C!Step(Tr[l], l)
         /\ l' = l + 1
TraceSpec == TInit /\ [][TNext]_vars

\* CONSTRAINT: when the last line has been consumed, park the result in a TLC register
Export == IF l = Len(Tr) + 1
          THEN TLCSet(1, [verdicts |-> verd, cnt |-> cnt, lines |-> Len(Tr), open |-> Len(stk)])
          ELSE TRUE

\* POSTCONDITION
Accepted == /\ TLCGet("stats").diameter - 1 = Len(Tr)
            /\ JsonSerialize(IOEnv.OUT, TLCGet(1))
=============================================================================
