SPECIFICATION Spec
CONSTANTS N = 4 Maximum = 3 Chunk = 1 MaxReq = 3 Loop = FALSE
INVARIANTS Bounds OverflowOnlyIfTooSmall
PROPERTY Completed
CHECK_DEADLOCK FALSE
VIEW View
