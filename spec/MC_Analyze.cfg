SPECIFICATION Spec
CONSTANTS VisitAll = FALSE TwoRules = FALSE MaxLen = 2
INVARIANT Sound
CHECK_DEADLOCK FALSE
