----------------------------- MODULE MC_PegCore -----------------------------
(***************************************************************************)
(* Design-level check (no code involved): the operational model PegMachine *)
(* run on every grammar of a space, every input up to a length bound and   *)
(* every configuration, with the events it emits fed to PegContract in the *)
(* same behaviour.  Invariant: the contract never logs a verdict, i.e. on  *)
(* the whole space the design of match.hpp + internal/*.hpp (rewind-mode   *)
(* protocol, guard placement, hook order, action dispatch, exceptions)     *)
(* satisfies C01 (every invocation's outcome equals the denotation),       *)
(* C02 (rewind contract), C04 (actions), C05 (propagation), C08 (hooks).   *)
(*                                                                         *)
(* The grammar space is one table: six atoms, every operator over them     *)
(* (level 1), every operator over atoms and level-1 expressions (level 2). *)
(* Every node is a possible root.  Every node carries an action in each of *)
(* the families 1..7 (void / bool apply / apply0, throwing apply / apply0).*)
(***************************************************************************)
EXTENDS Integers, Sequences, FiniteSets, SequencesExt, TLC

CONSTANTS Levels,    \* 1 or 2: with 2 only the level-2 expressions are roots (level 1 has its own configuration)
          MaxLen,    \* inputs: all strings over {a, b} up to this length
          ExcOps,    \* TRUE: include must / try_catch_return_false
          Stride,    \* only every Stride-th expression (1: all), starting at Offset < Stride: a seeded sample of the space
          Offset,
          Wide,      \* TRUE: the wider operator set (partial, star_partial, rep, rep_opt, until, if_must, opt_must, if_then_else,
                     \*       enable, disable, raise, try_catch_raise_nested) in addition to the core one
          AllCfgs    \* TRUE: apply mode x rewind mode x 9 action families (8: control_action) x 2 controls; FALSE: rewind mode x {none, bool apply, switches}

VARIABLES w, cfg,                        \* the run: input, configuration incl. root (fixed in Init)
          fr, cur, ret, exc, q, done, aux,    \* PegMachine
          stk, cs, lastx, verd, cnt,     \* PegContract
          n, ended                       \* event counter, end event delivered

vars == <<w, cfg, fr, cur, ret, exc, q, done, aux, stk, cs, lastx, verd, cnt, n, ended>>

\* "swK": a named rule seq< R > that carries switch K of the harness's action family 5 (change_state< S1 >, change_states< S1 >,
\* change_action< fam1 >, change_action_and_state, change_action_and_states, change_control, enable_action, disable_action,
\* change_state< S2 >, change_action_and_state< fam1, S2 >); "state2": state< S2, R > with the default-constructible-only S2
SwSeq == <<"sw1", "sw2", "sw3", "sw4", "sw5", "sw6", "sw7", "sw8", "sw9", "sw10">>
SwOps == {SwSeq[i] : i \in 1..Len(SwSeq)}
SwNo(o) == IF o \in SwOps THEN CHOOSE i \in 1..Len(SwSeq) : SwSeq[i] = o ELSE 0
\* "limV": a named rule seq< R > that carries limit V = kind * 1000 + N of the harness's action family 4 (1 limit_depth< N >,
\* 2 limit_bytes< N >, 3 check_bytes< N >)
LimSeq == <<"lim1000", "lim1001", "lim1002", "lim2000", "lim2001", "lim2002", "lim3000", "lim3001", "lim3002">>
LimVal == <<1000, 1001, 1002, 2000, 2001, 2002, 3000, 3001, 3002>>
LimOps == {LimSeq[i] : i \in 1..Len(LimSeq)}
LimNo(o) == IF o \in LimOps THEN LimVal[CHOOSE i \in 1..Len(LimSeq) : LimSeq[i] = o] ELSE 0
RealOp(o) == IF o \in SwOps \cup LimOps THEN "seq" ELSE IF o = "state2" THEN "state" ELSE o
Unary  == {"star", "plus", "opt", "at", "not_at"} \cup (IF ExcOps THEN {"must", "try_catch_return_false"} ELSE {})
          \cup (IF Wide THEN {"partial", "star_partial", "rep", "rep_opt", "enable", "disable"} ELSE {})
          \cup (IF Wide /\ ExcOps THEN {"try_catch_raise_nested"} ELSE {})
          \cup (IF Wide THEN {"state", "state2"} \cup SwOps ELSE {})
          \cup (IF Wide /\ ExcOps THEN LimOps ELSE {})
Binary == {"seq", "sor"} \cup (IF Wide THEN {"until"} ELSE {})      \* if_must / opt_must: see Apps
Ternary == IF Wide THEN {"if_then_else"} ELSE {}
\* family f -> action kind f for f = 1, 2, 3, 6, 7; family 4 is the limits family (no actions); family 5 (rules without a
\* switch): kind 4 (bool apply0) on even nodes, kind 5 (apply throwing a foreign exception) on odd ones
AKF(id) == 16 + 2 * 256 + 3 * 4096 + (4 + (id % 2)) * 1048576 + 6 * 16777216 + 7 * 268435456

NodeRec(id, op, kids, p, iop, ikids, en, sw, lim) ==
   [id |-> id, op |-> op, kids |-> kids, p |-> p, iop |-> iop, ikids |-> ikids, ip |-> p, en |-> en, vid |-> id, ak |-> IF en = 0 THEN 0 ELSE IF sw > 0 THEN AKF(id) - (4 + (id % 2)) * 1048576 ELSE AKF(id),   \* a rule with a switch has the change_* class as its family-5 action;     \* nobody attaches actions to internal rules
   
    sel |-> 0, lim |-> lim, sw |-> sw, named |-> 0, s |-> "", dn |-> "n", name |-> "n", hasmsg |-> 0, emsg |-> "", thas |-> 0, tmsg |-> "", mihas |-> 0, mimsg |-> "", mirof |-> -1,
    prop |-> "C01"]
AtomSpecs == <<<<"any", <<>>>>, <<"one", <<97>>>>, <<"string", <<97, 98>>>>, <<"eof", <<>>>>, <<"success", <<>>>>, <<"failure", <<>>>>>>
             \o (IF Wide /\ ExcOps THEN <<<<"raise", <<2>>>>>> ELSE <<>>)          \* raise< one< 'a' > >
NA == Len(AtomSpecs)
\* internal rules the implementation calls without the user having written them: must< R > (disabled control) for if_must / opt_must
NI == IF Wide /\ ExcOps THEN NA ELSE 0
MustOf(j) == NA + j
\* operator applications over the operand set S, as <<op, kids>>
Apps(S) == SetToSeq({<<u, <<i>>>> : u \in Unary, i \in S} \cup {<<b, <<i, j>>>> : b \in Binary, i \in S, j \in S}
                    \cup {<<b, <<i, j>>>> : b \in IF Wide /\ ExcOps THEN {"if_must", "opt_must"} ELSE {}, i \in S, j \in 1..NA}
                    \cup {<<t, <<i, j, k>>>> : t \in Ternary, i \in S, j \in S, k \in S})
L1 == Apps(1..NA)
B1 == NA + NI                       \* level-1 nodes are B1 + 1 .. B1 + Len(L1)
\* level 2: operators over atoms and level-1 expressions.  The space is large (wide: ~1.5 million expressions), so the
\* table holds only the sampled ones: expression number x of a fixed enumeration for x = Offset, Offset + Stride, ...
\* (Stride = 1: all of them).  Ternary operators stay at level 1.
UnarySeq  == SetToSeq(Unary)
BinarySeq == SetToSeq(Binary)
IMSeq     == IF Wide /\ ExcOps THEN <<"if_must", "opt_must">> ELSE <<>>
S2 == [i \in 1..(NA + Len(L1)) |-> IF i <= NA THEN i ELSE B1 + (i - NA)]       \* operand ids
n2 == Len(S2)
U2 == Len(UnarySeq) * n2
B2 == Len(BinarySeq) * n2 * n2
T2 == U2 + B2 + Len(IMSeq) * n2 * NA
Decode(x) ==
   IF x < U2 THEN <<UnarySeq[(x \div n2) + 1], <<S2[(x % n2) + 1]>>>>
   ELSE IF x < U2 + B2
   THEN LET y == x - U2 IN <<BinarySeq[(y \div (n2 * n2)) + 1], <<S2[((y \div n2) % n2) + 1], S2[(y % n2) + 1]>>>>
   ELSE LET y == x - U2 - B2 IN <<IMSeq[(y \div (n2 * NA)) + 1], <<S2[((y \div NA) % n2) + 1], (y % NA) + 1>>>>
K2 == IF Levels >= 2 /\ Offset < T2 THEN ((T2 - 1 - Offset) \div Stride) + 1 ELSE 0
L2 == [k \in 1..K2 |-> Decode(Offset + (k - 1) * Stride)]
\* parameters: try_catch*: the caught class (1 parse_error_base) [and the rule whose raise_nested is called]; rep / rep_opt: the count
PP(op, kids) == IF op = "try_catch_return_false" THEN <<1>> ELSE IF op = "try_catch_raise_nested" THEN <<1, kids[1]>>
                ELSE IF op \in {"rep", "rep_opt"} THEN <<2>> ELSE IF op = "state" THEN <<0>> ELSE IF op = "state2" THEN <<1>> ELSE <<>>
\* implementation view: if_must< C, R > = subs_t< C, must< R > >
IK(op, kids) == IF op \in {"if_must", "opt_must"} THEN <<kids[1], MustOf(kids[2])>> ELSE kids
App(id, a) == NodeRec(id, RealOp(a[1]), a[2], PP(a[1], a[2]), RealOp(a[1]), IK(a[1], a[2]), 1, SwNo(a[1]), LimNo(a[1]))
GNodes ==
   [i \in 1..(B1 + Len(L1) + Len(L2)) |->
      IF i <= NA THEN NodeRec(i, AtomSpecs[i][1], <<>>, AtomSpecs[i][2], AtomSpecs[i][1], <<>>, 1, 0, 0)
      ELSE IF i <= B1 THEN NodeRec(i, "must", <<i - NA>>, <<>>, "must", <<i - NA>>, 0, 0, 0)
      ELSE IF i <= B1 + Len(L1) THEN App(i, L1[i - B1])
      ELSE App(i, L2[i - B1 - Len(L1)])]

Inputs == UNION {[1..m -> {97, 98}] : m \in 0..MaxLen}

M == INSTANCE PegMachine WITH Nodes <- GNodes, W <- w, Cfg <- cfg
C == INSTANCE PegContract WITH Nodes <- GNodes
D == INSTANCE PegDen WITH Nodes <- GNodes, W <- w

DenCtx == [A |-> cfg.A, lim |-> Len(w), fam |-> cfg.af, vis |-> IF cfg.cf \in {3, 4} THEN 1 ELSE 0, eol |-> 3, ib |-> 0, il |-> 1, ic |-> 1, dep |-> 0, mi |-> 0]
Fuel == 10

\* The documented expansions of if_then_else and until mention the condition twice, once under not_at (actions
\* disabled).  With an action inside the condition that does more than observe -- vetoes, throws, or is a limit that
\* raises -- the expansion and the rule legitimately differ (the rule runs the condition once, with actions; the
\* formalism knows no actions), so such roots are run with the observing families 0, 1, 2 only; the other families
\* meet these operators in the recorded-run checks, where the corpus keeps such actions out of conditions.
RECURSIVE HasDup(_)
HasDup(g) == GNodes[g].op \in {"if_then_else", "until"} \/ \E i \in 1..Len(GNodes[g].kids) : HasDup(GNodes[g].kids[i])

Init ==
   /\ w \in Inputs
   /\ \E g \in (IF Levels >= 2 THEN (B1 + Len(L1) + 1)..Len(GNodes) ELSE {r \in 1..Len(GNodes) : r % Stride = Offset % Stride}),
         A \in (IF AllCfgs THEN {0, 1} ELSE {1}), MM \in {0, 1}, af \in (IF AllCfgs THEN 0..8 ELSE {0, 3, 4, 5}), cf \in (IF AllCfgs THEN {2, 4} ELSE {4}) :
         cfg = [g |-> g, A |-> A, M |-> MM, af |-> af, cf |-> cf, eol |-> 3, ib |-> 0, il |-> 1, ic |-> 1, cls |-> IF af = 4 THEN 1 ELSE 0]      \* limit_depth needs the input with the depth counter
   /\ ~(cfg.A = 1 /\ cfg.af \notin {0, 1, 2} /\ HasDup(cfg.g))
   \* grammars that loop without progress on this input are C11's business
   /\ D!Den(cfg.g, 0, DenCtx, Fuel).k # "L"
   /\ M!MInit
   /\ stk = <<>> /\ lastx = C!NoLast /\ verd = <<>> /\ cnt = C!Cnt0
   /\ cs = [id |-> 1, g |-> cfg.g, w |-> w, A |-> cfg.A, M |-> cfg.M, af |-> cfg.af, cf |-> cfg.cf, trk |-> 0, eol |-> 3,
            ib |-> 0, il |-> 1, ic |-> 1, cls |-> cfg.cls, xt |-> 0, bmax |-> 0, bchunk |-> 0, sched |-> 0, tl |-> <<>>, bt |-> <<>>]
   /\ n = 1 /\ ended = FALSE

EndEvent ==
   [k |-> "end", v |-> done, b |-> cur, l |-> 1, c |-> 1 + cur, o |-> cur, e |-> Len(w), d |-> IF cfg.cls = 1 THEN aux.dep ELSE -1,
    x |-> IF done = 2 THEN exc.cls ELSE 0, nested |-> IF done = 2 THEN exc.n ELSE 0,
    pb |-> IF done = 2 THEN exc.at ELSE -1, pl |-> IF done = 2 THEN 1 ELSE -1, pc |-> IF done = 2 THEN 1 + exc.at ELSE -1,
    src |-> "src", msg |-> IF done = 2 THEN C!MsgOf(exc.who, exc.m) ELSE "",
    what |-> IF done = 2 THEN "src:1:" \o ToString(1 + exc.at) \o ": " \o C!MsgOf(exc.who, exc.m) ELSE "", acc |-> 0]

Next ==
   \/ /\ q # <<>>                                           \* the observer consumes the oldest event
      /\ C!Step(Head(q), n) /\ M!Emit /\ n' = n + 1
      /\ UNCHANGED <<w, cfg, ended>>
   \/ /\ q = <<>> /\ done = -1                              \* the machine takes a step
      /\ M!MStep
      /\ UNCHANGED <<w, cfg, stk, cs, lastx, verd, cnt, n, ended>>
   \/ /\ q = <<>> /\ done # -1 /\ ~ended                    \* parse() returned or threw
      /\ C!Step(EndEvent, n) /\ ended' = TRUE /\ n' = n + 1
      /\ UNCHANGED <<w, cfg, fr, cur, ret, exc, q, done, aux>>

Spec == Init /\ [][Next]_vars

\* the design never produces an observation the contract objects to
NoVerdict == verd = <<>>
\* and the run ends with the result the denotation prescribes
ResultOK == ended => LET d == D!Den(cfg.g, 0, DenCtx, Fuel) IN
                     CASE d.k = "T" -> done = 1 /\ cur = d.e [] d.k = "F" -> done = 0 [] d.k = "X" -> done = 2 [] OTHER -> TRUE
\* no run gets stuck half way
Progress == (q = <<>> /\ done = -1) => ENABLED M!MStep
\* every run of a grammar the denotation does not classify as looping ends: parse() returns or throws, and the
\* observer has consumed every event (liveness; checked under weak fairness of the composed step)
FairSpec == Spec /\ WF_vars(Next)
Termination == <>(ended /\ q = <<>>)
=============================================================================
