----------------------------- MODULE MC_PegCore -----------------------------
(***************************************************************************)
(* Design-level check (no code involved): the operational model PegMachine *)
(* run on every grammar of a space, every input up to a length bound and   *)
(* every configuration, with the events it emits fed to PegContract in the *)
(* same behaviour.  Invariant: the contract never logs a verdict, i.e. on  *)
(* the whole space the design of match.hpp + internal/*.hpp (rewind-mode   *)
(* protocol, guard placement, hook order, action dispatch, exceptions)     *)
(* satisfies C01 (every invocation's outcome equals the denotation),       *)
(* C02 (rewind contract), C04 (actions), C05 (propagation), C08 (hooks).   *)
(*                                                                         *)
(* The grammar space is one table: six atoms, every operator over them     *)
(* (level 1), every operator over atoms and level-1 expressions (level 2). *)
(* Every node is a possible root.  Every node carries an action in each of *)
(* the families 1..7 (void / bool apply / apply0, throwing apply / apply0).*)
(***************************************************************************)
EXTENDS Integers, Sequences, FiniteSets, SequencesExt, TLC

CONSTANTS Levels,    \* 1 or 2: with 2 only the level-2 expressions are roots (level 1 has its own configuration)
          MaxLen,    \* inputs: all strings over {a, b} up to this length
          ExcOps,    \* TRUE: include must / try_catch_return_false
          Stride,    \* only every Stride-th root (1: all), offset by Offset: a seeded sample of the level-2 space
          Offset,
          AllCfgs    \* TRUE: apply mode x rewind mode x 5 action families x 2 controls; FALSE: rewind mode x {none, bool apply}

VARIABLES w, cfg,                        \* the run: input, configuration incl. root (fixed in Init)
          fr, cur, ret, exc, q, done,    \* PegMachine
          stk, cs, lastx, verd, cnt,     \* PegContract
          n, ended                       \* event counter, end event delivered

vars == <<w, cfg, fr, cur, ret, exc, q, done, stk, cs, lastx, verd, cnt, n, ended>>

Unary  == {"star", "plus", "opt", "at", "not_at"} \cup (IF ExcOps THEN {"must", "try_catch_return_false"} ELSE {})
Binary == {"seq", "sor"}
AK == 16 + 2 * 256 + 3 * 4096 + 4 * 65536 + 5 * 1048576 + 6 * 16777216 + 7 * 268435456      \* family f -> action kind f

NodeRec(id, op, kids, p) ==
   [id |-> id, op |-> op, kids |-> kids, p |-> p, iop |-> op, ikids |-> kids, ip |-> p, en |-> 1, vid |-> id, ak |-> AK,
    sel |-> 0, lim |-> 0, sw |-> 0, named |-> 0, s |-> "", dn |-> "n", name |-> "n", hasmsg |-> 0, emsg |-> "", thas |-> 0, tmsg |-> "",
    prop |-> "C01"]
AtomSpecs == <<<<"any", <<>>>>, <<"one", <<97>>>>, <<"string", <<97, 98>>>>, <<"eof", <<>>>>, <<"success", <<>>>>, <<"failure", <<>>>>>>
NA == Len(AtomSpecs)
\* operator applications over the nodes 1..m, as <<op, kids>>
Apps(m) == SetToSeq({<<u, <<i>>>> : u \in Unary, i \in 1..m} \cup {<<b, <<i, j>>>> : b \in Binary, i \in 1..m, j \in 1..m})
L1 == Apps(NA)
A2 == IF Levels >= 2 THEN Apps(NA + Len(L1)) ELSE <<>>
L2 == SelectSeq(A2, LAMBDA a : \E i \in 1..Len(a[2]) : a[2][i] > NA)      \* at least one operand of level 1
PP(op) == IF op = "try_catch_return_false" THEN <<1>> ELSE <<>>
GNodes ==
   [i \in 1..(NA + Len(L1) + Len(L2)) |->
      IF i <= NA THEN NodeRec(i, AtomSpecs[i][1], <<>>, AtomSpecs[i][2])
      ELSE IF i <= NA + Len(L1) THEN NodeRec(i, L1[i - NA][1], L1[i - NA][2], PP(L1[i - NA][1]))
      ELSE NodeRec(i, L2[i - NA - Len(L1)][1], L2[i - NA - Len(L1)][2], PP(L2[i - NA - Len(L1)][1]))]

Inputs == UNION {[1..m -> {97, 98}] : m \in 0..MaxLen}

M == INSTANCE PegMachine WITH Nodes <- GNodes, W <- w, Cfg <- cfg
C == INSTANCE PegContract WITH Nodes <- GNodes
D == INSTANCE PegDen WITH Nodes <- GNodes, W <- w

DenCtx == [A |-> cfg.A, lim |-> Len(w), fam |-> cfg.af, vis |-> IF cfg.cf \in {3, 4} THEN 1 ELSE 0, eol |-> 3, ib |-> 0, il |-> 1, ic |-> 1, dep |-> 0]
Fuel == 10

Init ==
   /\ w \in Inputs
   /\ \E g \in {r \in (IF Levels >= 2 THEN (NA + Len(L1) + 1)..Len(GNodes) ELSE 1..Len(GNodes)) : r % Stride = Offset % Stride},
         A \in (IF AllCfgs THEN {0, 1} ELSE {1}), MM \in {0, 1}, af \in (IF AllCfgs THEN 0..7 ELSE {0, 3}), cf \in (IF AllCfgs THEN {2, 4} ELSE {4}) :
         cfg = [g |-> g, A |-> A, M |-> MM, af |-> af, cf |-> cf, eol |-> 3, ib |-> 0, il |-> 1, ic |-> 1]
   \* grammars that loop without progress on this input are C11's business
   /\ D!Den(cfg.g, 0, DenCtx, Fuel).k # "L"
   /\ M!MInit
   /\ stk = <<>> /\ lastx = C!NoLast /\ verd = <<>> /\ cnt = C!Cnt0
   /\ cs = [id |-> 1, g |-> cfg.g, w |-> w, A |-> cfg.A, M |-> cfg.M, af |-> cfg.af, cf |-> cfg.cf, trk |-> 0, eol |-> 3,
            ib |-> 0, il |-> 1, ic |-> 1, cls |-> 0, xt |-> 0, bmax |-> 0, bchunk |-> 0, sched |-> 0]
   /\ n = 1 /\ ended = FALSE

EndEvent ==
   [k |-> "end", v |-> done, b |-> cur, l |-> 1, c |-> 1 + cur, o |-> cur, e |-> Len(w), d |-> -1,
    x |-> IF done = 2 THEN exc.cls ELSE 0, nested |-> 0,
    pb |-> IF done = 2 THEN exc.at ELSE -1, pl |-> IF done = 2 THEN 1 ELSE -1, pc |-> IF done = 2 THEN 1 + exc.at ELSE -1,
    src |-> "src", msg |-> IF done = 2 THEN C!MsgOf(exc.who, 0) ELSE "",
    what |-> IF done = 2 THEN "src:1:" \o ToString(1 + exc.at) \o ": " \o C!MsgOf(exc.who, 0) ELSE "", acc |-> 0]

Next ==
   \/ /\ q # <<>>                                           \* the observer consumes the oldest event
      /\ C!Step(Head(q), n) /\ M!Emit /\ n' = n + 1
      /\ UNCHANGED <<w, cfg, ended>>
   \/ /\ q = <<>> /\ done = -1                              \* the machine takes a step
      /\ M!MStep
      /\ UNCHANGED <<w, cfg, stk, cs, lastx, verd, cnt, n, ended>>
   \/ /\ q = <<>> /\ done # -1 /\ ~ended                    \* parse() returned or threw
      /\ C!Step(EndEvent, n) /\ ended' = TRUE /\ n' = n + 1
      /\ UNCHANGED <<w, cfg, fr, cur, ret, exc, q, done>>

Spec == Init /\ [][Next]_vars

\* the design never produces an observation the contract objects to
NoVerdict == verd = <<>>
\* and the run ends with the result the denotation prescribes
ResultOK == ended => LET d == D!Den(cfg.g, 0, DenCtx, Fuel) IN
                     CASE d.k = "T" -> done = 1 /\ cur = d.e [] d.k = "F" -> done = 0 [] d.k = "X" -> done = 2 [] OTHER -> TRUE
\* no run gets stuck half way
Progress == (q = <<>> /\ done = -1) => ENABLED M!MStep
=============================================================================
