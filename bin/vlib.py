#!/usr/bin/env python3
"""vlib.py -- shared driver machinery: tree hash, family build/run/validate pipeline, caches."""
import concurrent.futures as cf
import fcntl
import glob
import hashlib
import json
import os
import re
import shutil
import subprocess
import sys
import time

VERIF = os.path.dirname(os.path.dirname(os.path.abspath(__file__)))
REPO = os.environ.get("VERIF_REPO", "/repo")
CACHE = os.path.join(VERIF, ".cache")
SPEC = os.path.join(VERIF, "spec")
JOBS = int(os.environ.get("VERIF_JOBS", "16"))
CXX = os.environ.get("VERIF_CXX", "g++")
TLC_JAR = "/opt/veriftools/tla/tla2tools.jar:/opt/veriftools/tla/CommunityModules-deps.jar"

sys.path.insert(0, os.path.join(VERIF, "gen"))


class Broken(Exception):
    """infrastructure failure: the check is broken, this is not a verdict about PEGTL"""


def log(*a):
    sys.stderr.write(" ".join(str(x) for x in a) + "\n")
    sys.stderr.flush()


def hash_tree(paths):
    h = hashlib.sha256()
    for root in paths:
        if os.path.isfile(root):
            files = [root]
        else:
            files = []
            for d, dn, fn in os.walk(root):
                dn[:] = sorted(x for x in dn if x not in (".git", "__pycache__", ".cache"))
                for f in sorted(fn):
                    if f.endswith((".pyc",)):
                        continue
                    files.append(os.path.join(d, f))
        for f in files:
            h.update(f.encode())
            with open(f, "rb") as fh:
                h.update(fh.read())
    return h.hexdigest()[:20]


def tree_key(family, tier, seed):
    """cache key: everything the family's result depends on (so any edit under /repo forces a rebuild)"""
    H, S = os.path.join(VERIF, "harness"), SPEC
    common = [os.path.join(REPO, "include"), os.path.join(REPO, "src", "example", "pegtl"), os.path.join(VERIF, "gen"),
              os.path.join(VERIF, "bin", "vlib.py"), os.path.join(H, "vtrace.hpp"), os.path.join(S, "PegDen.tla")]
    if family.startswith("obs_"):
        deps = common + [os.path.join(H, "obs_main.cpp"), os.path.join(S, "ObsContract.tla"), os.path.join(S, "TraceObs.tla"),
                         os.path.join(S, "TraceObs.cfg")]
    else:
        deps = common + [os.path.join(H, f) for f in sorted(os.listdir(H)) if f != "obs_main.cpp" and not f.startswith("obs_")]
        deps += [os.path.join(S, f) for f in sorted(os.listdir(S)) if f.startswith(("PegContract", "TraceContract", "TraceMachine", "PegMachine"))]
    return hash_tree(deps) + "-%s-%s-%d" % (family, tier, seed)


def run(cmd, timeout, cwd=None, env=None, stdout=subprocess.PIPE):
    e = dict(os.environ)
    if env:
        e.update(env)
    try:
        p = subprocess.run(cmd, cwd=cwd, env=e, stdout=stdout, stderr=subprocess.STDOUT, timeout=timeout)
    except subprocess.TimeoutExpired:
        raise Broken("timeout after %ds: %s" % (timeout, " ".join(cmd)[:200]))
    return p.returncode, (p.stdout.decode("utf-8", "replace") if p.stdout else "")


def compile_suite(src, exe, extra_flags=()):
    flags = ["-std=c++17", "-O0", "-w", "-I" + os.path.join(REPO, "include"), "-I" + os.path.join(VERIF, "harness"),
             "-I" + os.path.join(REPO, "src", "example", "pegtl")]
    rc, out = run([CXX] + flags + list(extra_flags) + [src, "-o", exe], 1500)
    if rc != 0:
        raise Broken("harness does not compile against the current tree: %s\n%s" % (src, out[-3000:]))


TLC_STATES = re.compile(r"(\d+) states generated, (\d+) distinct states found")


def tlc_trace(trace, table, out, spec="TraceContract", timeout=1200, extra_env=None):
    """validate one trace part; returns (result dict, states generated, distinct)"""
    md = out + ".md"
    env = {"TRACE": trace, "TABLE": table, "OUT": out}
    if extra_env:
        env.update(extra_env)
    cmd = ["java", "-XX:+UseSerialGC", "-XX:CICompilerCount=2", "-Xss16m", "-Xmx3g", "-cp", TLC_JAR, "tlc2.TLC", "-workers", "1",
           "-noGenerateSpecTE", "-metadir", md, "-config", spec + ".cfg", spec + ".tla"]
    rc, txt = run(cmd, timeout, cwd=SPEC, env=env)
    shutil.rmtree(md, ignore_errors=True)
    m = TLC_STATES.search(txt)
    if rc != 0 or not os.path.exists(out) or not m:
        raise Broken("TLC did not accept %s (exit %d): the trace was not consumed completely or the spec failed\n%s"
                     % (trace, rc, txt[-2500:]))
    res = json.load(open(out))
    return res, int(m.group(1)), int(m.group(2))


def case_slice(trace, case_id):
    """lines of one case from a trace part"""
    out, on = [], False
    pat = '"k":"case","id":%d,' % case_id
    with open(trace) as f:
        for line in f:
            if line.startswith('{"k":"case"'):
                if on:
                    break
                on = pat in line
            if on:
                out.append(line)
    return out


def case_slices(trace, ids):
    """lines of the listed cases of a trace part, in one pass"""
    out, cur = {}, None
    with open(trace) as f:
        for line in f:
            if line.startswith('{"k":"case"'):
                cid = int(line.split('"id":', 1)[1].split(",", 1)[0])
                cur = cid if cid in ids else None
                if cur is not None:
                    out[cur] = []
            if cur is not None:
                out[cur].append(line)
    return out


class FamilyRun:
    """builds, runs and validates one corpus family for the current tree; results are cached by tree hash"""

    def __init__(self, family, tier, seed):
        self.family, self.tier, self.seed = family, tier, seed
        self.key = tree_key(family, tier, seed)
        self.dir = os.path.join(CACHE, self.key)
        self.result_path = os.path.join(self.dir, "result.json")

    def get(self):
        os.makedirs(CACHE, exist_ok=True)
        lock = open(os.path.join(CACHE, "lock-" + self.family), "w")
        fcntl.flock(lock, fcntl.LOCK_EX)
        try:
            if os.path.exists(self.result_path) and not os.environ.get("VERIF_NOCACHE"):
                return json.load(open(self.result_path))
            prune_cache(keep=self.key)
            shutil.rmtree(self.dir, ignore_errors=True)
            os.makedirs(self.dir)
            t0 = time.time()
            res = self.execute()
            res["wall_s"] = round(time.time() - t0, 2)
            tmp = self.result_path + ".tmp"
            json.dump(res, open(tmp, "w"))
            os.replace(tmp, self.result_path)
            return res
        finally:
            fcntl.flock(lock, fcntl.LOCK_UN)
            lock.close()

    # ---- pipeline: stage 1 compile + run every suite, stage 2 validate every trace part (both 16-way parallel)
    def execute(self):
        import families
        suites = families.FAMILIES[self.family](self.tier, self.seed)
        log("[%s] %d suites, tier %s, seed %d" % (self.family, len(suites), self.tier, self.seed))
        agg = {"family": self.family, "tier": self.tier, "seed": self.seed, "suites": len(suites), "verdicts": [],
               "cnt": {}, "cases": 0, "events": 0, "states": 0, "distinct": 0, "parts": 0, "grammars": 0,
               "samples": [], "opaque_rules": [], "t_compile": 0.0, "t_run": 0.0, "t_tlc": 0.0}
        if any(su.get("needs_schedules") for su in suites):
            self.schedules = self.make_schedules()
        with cf.ThreadPoolExecutor(max_workers=JOBS) as ex:
            built = [f.result() for f in [ex.submit(self.do_build, s) for s in suites]]
            jobs = []
            for b in built:
                if b.get("incomplete"):
                    agg.setdefault("incomplete", []).append(b["name"])
                agg["grammars"] += b["grammars"]
                agg["opaque_rules"].extend(b["unknown"])
                agg["t_compile"] += b["t_compile"]
                agg["t_run"] += b["t_run"]
                for part in b["parts"]:
                    jobs.append(ex.submit(self.do_part, b, part))
            for f in jobs:
                r = f.result()
                agg["verdicts"].extend(r["verdicts"])
                for k, v in r["cnt"].items():
                    agg["cnt"][k] = agg["cnt"].get(k, 0) + v
                for k in ("events", "states", "distinct", "parts", "t_tlc"):
                    agg[k] += r[k]
                agg["truncated"] = agg.get("truncated", False) or r.get("truncated", False)
                if r.get("machine"):
                    m = agg.setdefault("machine", {"cases": 0, "compared": 0, "skipped": 0, "limited": 0, "ndrift": 0, "drift": []})
                    for k in ("cases", "compared", "skipped", "limited", "ndrift"):
                        m[k] += r["machine"][k]
                    for dr in r["machine"]["drift"][:3]:
                        if len(m["drift"]) < 10:
                            m["drift"].append(dict(dr, suite=r["machine"]["suite"]))
                if r["sample"] and len(agg["samples"]) < 3:
                    agg["samples"].append(r["sample"])
        agg["cases"] = agg["cnt"].get("cases", 0)
        agg["opaque_rules"] = sorted(set(agg["opaque_rules"]))[:50]
        for k in ("t_compile", "t_run", "t_tlc"):
            agg[k] = round(agg[k], 1)
        return agg

    def make_schedules(self):
        """reader schedules for buffer_input, generated by TLC from spec/BufferInput.tla (spec -> code)"""
        out = os.path.join(self.dir, "schedules.json")
        md = out + ".md"
        rc, txt = run(["java", "-XX:+UseSerialGC", "-cp", TLC_JAR, "tlc2.TLC", "-metadir", md, "BufferSched.tla"], 300,
                      cwd=SPEC, env={"OUT": out})
        shutil.rmtree(md, ignore_errors=True)
        if not os.path.exists(out):
            raise Broken("TLC did not produce the reader schedules\n" + txt[-1500:])
        per_len = json.load(open(out))
        txtp = os.path.join(self.dir, "schedules.txt")
        with open(txtp, "w") as f:
            for group in per_len:
                for sch in sorted(group):
                    f.write(" ".join(str(k) for k in sch) + "\n")
        return txtp

    def do_build(self, suite):
        name = suite["name"]
        d = os.path.join(self.dir, name)
        os.makedirs(d)
        src = os.path.join(d, name + ".cpp")
        exe = os.path.join(d, name)
        open(src, "w").write(suite["source"])
        t_a = time.time()
        compile_suite(src, exe, suite.get("flags", ()))
        t_b = time.time()
        prefix = os.path.join(d, "tr")
        tb = os.path.join(d, "table.ndjson")
        tj = os.path.join(d, "table.json")
        if suite.get("obs"):
            rc, out = run([exe, prefix] + [str(x) for x in suite.get("args", [])], 1500)
            if rc != 0:
                raise Broken("harness %s exited with %d\n%s" % (name, rc, out[-2000:]))
            tbl, unknown = {"nodes": []}, []
            json.dump(tbl, open(tj, "w"))
        else:
            extra = ["0", "1", self.schedules] if suite.get("needs_schedules") else []
            rc, out = run([exe, prefix, tb] + [str(x) for x in suite.get("args", [])] + extra, 1500, env=suite.get("env"))
            if rc != 0:
                raise Broken("harness %s exited with %d\n%s" % (name, rc, out[-2000:]))
            import table as tablemod
            rows = [json.loads(l) for l in open(tb) if l.strip()]
            tbl, unknown = tablemod.build(rows)
            json.dump(tbl, open(tj, "w"))
        parts = []
        for part in sorted(glob.glob(prefix + ".*.ndjson")):
            if os.path.getsize(part) == 0:
                os.remove(part)
            else:
                parts.append(part)
        # the harness writes a "fin" marker when it reaches its regular end; a run that was cut short logged "crash"
        incomplete = False
        if parts and not suite.get("obs"):
            with open(parts[-1], "rb") as f:
                f.seek(max(0, os.path.getsize(parts[-1]) - 400))
                tail = f.read().decode("utf-8", "replace")
            if '"k":"fin"' not in tail:
                if '"k":"crash"' not in tail:
                    raise Broken("harness %s ended without its end marker and without a crash record" % name)
                incomplete = True
        for f in (exe, tb):
            if os.path.exists(f):
                os.remove(f)
        return {"name": name, "table": tj, "tbl": tbl, "names": {n["id"]: n["name"] for n in tbl["nodes"]},
                "parts": parts, "unknown": unknown, "grammars": suite.get("ngrammars", 0),
                "spec": suite.get("spec", "TraceContract"), "machine": suite.get("machine", False), "incomplete": incomplete,
                "t_compile": t_b - t_a, "t_run": time.time() - t_b}

    def do_part(self, b, part):
        t0 = time.time()
        name = b["name"]
        outp = part + ".verdicts.json"
        r, gen, dist = tlc_trace(part, b["table"], outp, spec=b["spec"])
        res = {"verdicts": [], "cnt": r["cnt"], "events": r["lines"], "states": gen, "distinct": dist, "parts": 1,
               "sample": None, "machine": None}
        if b.get("machine") and part.endswith(".0000.ndjson"):
            # lock-step comparison of the operational model with this part of the recorded runs (drift, never a verdict)
            mo = part + ".machine.json"
            try:
                mr, mgen, mdist = tlc_trace(part, b["table"], mo, spec="TraceMachine")
                res["machine"] = mr["machine"]
                res["states"] += mgen
                res["distinct"] += mdist
            except Broken as e:
                # the lock-step comparison never decides a property: if it cannot run, that is reported as drift
                res["machine"] = {"cases": 0, "compared": 0, "skipped": 0, "limited": 0, "ndrift": 1,
                                  "drift": [{"what": "lock-step run failed", "line": 0, "model": str(e)[-300:], "code": ""}]}
            res["machine"]["suite"] = name
            if os.path.exists(mo):
                os.remove(mo)
        if part.endswith(".0000.ndjson"):
            with open(part) as f:
                head = [json.loads(x) for _, x in zip(range(6), f)]
            res["sample"] = {"suite": name, "first_events": head}
        seen_cases = set()
        want = []
        for v in r["verdicts"]:
            v["suite"] = name
            v["part"] = os.path.basename(part)
            v["rule"] = b["names"].get(v.get("r"), "")
            v["primary"] = v["case"] not in seen_cases
            seen_cases.add(v["case"])
            if v["primary"] and len(want) < 25:
                want.append(v["case"])
            res["verdicts"].append(v)
        res["truncated"] = len(r["verdicts"]) >= 300
        if want and b["spec"] == "TraceObs":
            # observation records: the failing record is the replay (case = line number)
            wanted = set(want)
            lines = {}
            with open(part) as f:
                for i, line in enumerate(f, 1):
                    if i in wanted:
                        lines[i] = line
            for v in res["verdicts"]:
                if v["primary"] and v["case"] in lines:
                    rp = os.path.join(self.dir, "replay-%s-%s-%d.json" % (name, os.path.basename(part), v["case"]))
                    if not os.path.exists(rp):
                        json.dump({"suite": name, "case": v["case"], "table": b["tbl"], "obs": True,
                                   "events": [json.loads(lines[v["case"]])]}, open(rp, "w"))
                    v["replay"] = rp
        elif want:
            # keep what is needed to replay the first failing cases: their events and the table (one pass over the part)
            slices = case_slices(part, set(want))
            for v in res["verdicts"]:
                if v["primary"] and v["case"] in slices:
                    rp = os.path.join(self.dir, "replay-%s-%s-%d.json" % (name, os.path.basename(part), v["case"]))
                    if not os.path.exists(rp):
                        json.dump({"suite": name, "case": v["case"], "table": b["tbl"],
                                   "events": [json.loads(l) for l in slices[v["case"]]]}, open(rp, "w"))
                    v["replay"] = rp
        os.remove(part)
        if os.path.exists(outp):
            os.remove(outp)
        res["t_tlc"] = time.time() - t0
        return res


def prune_cache(keep):
    """keep the cache small: drop entries of other trees (same family suffix is rebuilt anyway)"""
    if not os.path.isdir(CACHE):
        return
    fam = keep.split("-", 1)[1]
    for e in os.listdir(CACHE):
        p = os.path.join(CACHE, e)
        if os.path.isdir(p) and e != keep and e.split("-", 1)[-1] == fam:
            shutil.rmtree(p, ignore_errors=True)
