#!/usr/bin/env python3
"""regenerate MANIFEST.json from bin/props.py (claimed properties) and properties.jsonl"""
import json, os, subprocess, sys
sys.path.insert(0, os.path.dirname(os.path.abspath(__file__)))
import props
V = os.path.dirname(os.path.dirname(os.path.abspath(__file__)))
P = [json.loads(l) for l in open(os.path.join(V, "properties.jsonl"))]
try:
    hooks = [l.split()[0] for l in subprocess.check_output(["git", "-C", "/repo", "log", "--format=%h %s"]).decode().splitlines() if " hook:" in " " + l]
except Exception:
    hooks = []
m = {
    "version": 1,
    "setup_cmd": "bin/setup",
    "hooks": {
        "guard": "TAO_PEGTL_VERIF",
        "enable": "harness translation units are compiled against /repo/include of the working tree; -DTAO_PEGTL_VERIF switches on the input access hook used for C03; every other observation goes through the control-class seam and needs no source hook",
        "baseline_off_cmd": "cmake --build /repo/_build && ctest --test-dir /repo/_build -j8 --timeout 900",
        "source_commits": hooks,
        "add_only": True,
    },
    "engines": [
        {"name": "tlc-trace", "path": "spec/TraceContract.tla", "serves_properties": sorted(props.PROPS), "kind_free_text": "TLC trace validation of recorded PEGTL runs against PegContract/PegDen (TLA+), verdict log exported from the POSTCONDITION"},
        {"name": "tlc-design", "path": "spec/", "serves_properties": sorted(p for p in props.PROPS if "extra" in props.PROPS[p]), "kind_free_text": "TLC model checking of the design-level TLA+ models (operational models against declarative definitions)"},
        {"name": "harness", "path": "harness/", "serves_properties": sorted(props.PROPS), "kind_free_text": "tracing control class, grammar extraction, observation programs; compiled against /repo/include of the working tree"},
    ],
    "checks": [],
    "not_applicable": [],
    "notes": "see DESIGN.md; bin/check <ID> decides one property; exit 2 means the check itself is broken",
}
for p in P:
    pid = p["id"]
    if pid in props.PROPS:
        s = props.PROPS[pid]
        m["checks"].append({
            "property_id": pid,
            "quick_cmd": "bin/check %s --tier quick" % pid,
            "thorough_cmd": "bin/check %s --tier thorough" % pid,
            "evidence_file": "evidence/%s.json" % pid,
            "replay_cmd_template": "bin/check %s --replay {path}" % pid,
            "engine": "tlc-trace",
            "technique": s.get("technique", "explicit TLA+ specification checked by TLC; bound to the code by TLC trace validation of recorded runs"),
            "level_claimed": {"category": "model_checking", "text": s.get("level", ""), "design_ref": "DESIGN.md section 6, " + pid},
            "level_note": s.get("note", "trusts the control-class observation seam, gen/table.py and TLC; bounded to the generated corpus and input lengths stated in the evidence"),
        })
    else:
        m["not_applicable"].append({"property_id": pid, "reason": props.NOT_YET.get(pid, "specification and binding not built yet in this round; not claimed")})
json.dump(m, open(os.path.join(V, "MANIFEST.json"), "w"), indent=1)
print("claimed:", [c["property_id"] for c in m["checks"]])
