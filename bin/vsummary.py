#!/usr/bin/env python3
"""summarise primary verdicts of cached family results: vsummary.py <family> [tier]"""
import json,glob,collections,re,sys
fam=sys.argv[1]; tier=sys.argv[2] if len(sys.argv)>2 else 'quick'
paths=sorted(glob.glob('/verif/.cache/*-%s-%s-*/result.json'%(fam,tier)))
r=json.load(open(paths[-1]))
print(fam, 'cases',r['cases'],'events',r['events'],'wall',r.get('wall_s'),'cnt',r['cnt'])
c=collections.Counter(); ex={}
for v in r['verdicts']:
    if not v['primary']: continue
    k=(v['p'],v['rule'][:90],v['why'])
    c[k]+=1; ex.setdefault(k,v)
for k,n in c.most_common(60):
    v=ex[k]
    try:
        rp=json.load(open(v['replay'])); e0=rp['events'][0]
        extra='input=%r M=%d A=%d af=%d cf=%d trk=%d eol=%d'%(bytes(e0['w']),e0['M'],e0['A'],e0['af'],e0['cf'],e0['trk'],e0['eol'])
    except Exception as e: extra=''
    print(n,k,'\n     a=',v['a'],'b=',v['b'],extra)
