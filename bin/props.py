#!/usr/bin/env python3
"""props.py -- which corpus families and which design-level TLC runs decide each property."""
import json
import os
import sys
import tempfile

import vlib
from vlib import VERIF, Broken, log


def replay(pid, path):
    """re-validate the events saved in a replay file against the contract"""
    body = json.load(open(path))
    if "events" not in body or "table" not in body:
        print("replay file has no recorded case")
        return 2
    d = tempfile.mkdtemp(prefix="vreplay", dir=vlib.CACHE if os.path.isdir(vlib.CACHE) else None)
    tr = os.path.join(d, "t.ndjson")
    tb = os.path.join(d, "table.json")
    with open(tr, "w") as f:
        for e in body["events"]:
            f.write(json.dumps(e) + "\n")
    json.dump(body["table"], open(tb, "w"))
    try:
        res, _, _ = vlib.tlc_trace(tr, tb, os.path.join(d, "out.json"), spec="TraceObs" if body.get("obs") else "TraceContract")
    except Broken as e:
        log("CHECK BROKEN:", e)
        return 2
    finally:
        pass
    mine = [v for v in res["verdicts"] if v["p"] == pid]
    import shutil
    shutil.rmtree(d, ignore_errors=True)
    for v in res["verdicts"]:
        log("   verdict", v["p"], v["why"], v.get("a"), v.get("b"))
    if mine:
        print("VIOLATION property=%s replay=%s" % (pid, path))
        return 1
    print("replay: no verdict for", pid)
    return 0


DEN_RULE = ("cases = generated grammar x input string x configuration; counted as non-trivial: rule invocations whose "
            "observed outcome was compared with the denotation (Den) by TLC")

NOT_YET = {}

L_DEN = ("TLC compares the observed outcome (result, consumed prefix, exception class) of every rule invocation of every "
         "generated grammar x input x configuration with the denotation Den evaluated on the grammar table extracted "
         "from the compiled types; ")

def design_buffer(tier, seed):
    """design-level model checking of spec/BufferInput.tla (no code involved)"""
    import re
    import shutil
    states = trans = 0
    runs = []
    grid = [(4, 3, 1, 3), (4, 2, 2, 3), (5, 4, 1, 3)] if tier == "quick" else [(n, m, c, 3) for n in (4, 5, 6) for m in (1, 2, 3, 4, 5) for c in (1, 2, 3)]
    for (n, mx, ch, rq) in grid:
        d = tempfile.mkdtemp(prefix="mcbuf", dir=vlib.CACHE)
        cfg = os.path.join(d, "MC.cfg")
        open(cfg, "w").write("SPECIFICATION Spec\nCONSTANTS N = %d Maximum = %d Chunk = %d MaxReq = %d Loop = TRUE\n"
                             "INVARIANTS Bounds OverflowOnlyIfTooSmall\nPROPERTY Completed\nCHECK_DEADLOCK FALSE\nVIEW View\n" % (n, mx, ch, rq))
        rc, txt = vlib.run(["java", "-XX:+UseParallelGC", "-cp", vlib.TLC_JAR, "tlc2.TLC", "-noGenerateSpecTE", "-workers", "8", "-metadir", os.path.join(d, "md"),
                            "-config", cfg, "BufferInput.tla"], 1200, cwd=vlib.SPEC)
        shutil.rmtree(d, ignore_errors=True)
        m = re.search(r"(\d+) states generated, (\d+) distinct states found", txt)
        if rc != 0 or not m:
            if "is violated" in txt:
                return {"verdicts": [{"p": "C07", "why": "design-level: BufferInput violates its invariants for N=%d Maximum=%d Chunk=%d" % (n, mx, ch),
                                      "rule": "BufferInput.tla", "a": txt[-1500:], "b": 0}], "states": states, "transitions": trans}
            raise Broken("TLC failed on BufferInput.tla\n" + txt[-1500:])
        trans += int(m.group(1))
        states += int(m.group(2))
        runs.append({"N": n, "Maximum": mx, "Chunk": ch, "MaxReq": rq, "distinct": int(m.group(2))})
    return {"states": states, "transitions": trans, "design": {"BufferInput.tla": runs}}


def design_pegcore(tier, seed):
    """design-level model checking of spec/PegMachine.tla composed with PegContract / PegDen (no code involved);
    the result depends on the specification only, so it is cached by the hash of the spec modules it uses"""
    import fcntl
    key = vlib.hash_tree([os.path.join(vlib.SPEC, f) for f in ("PegMachine.tla", "PegContract.tla", "PegDen.tla", "MC_PegCore.tla")]
                         + [os.path.abspath(__file__)])
    os.makedirs(vlib.CACHE, exist_ok=True)
    path = os.path.join(vlib.CACHE, "design-pegcore-%s-%s-%d.json" % (key, tier, seed))
    lock = open(os.path.join(vlib.CACHE, "lock-design-pegcore"), "w")
    fcntl.flock(lock, fcntl.LOCK_EX)
    try:
        if os.path.exists(path) and not os.environ.get("VERIF_NOCACHE"):
            return json.load(open(path))
        for e in os.listdir(vlib.CACHE):
            if e.startswith("design-pegcore-") and e.endswith("-%s-%d.json" % (tier, seed)):
                os.remove(os.path.join(vlib.CACHE, e))
        r = design_pegcore_run(tier, seed)
        if "verdicts" not in r:
            json.dump(r, open(path + ".tmp", "w"))
            os.replace(path + ".tmp", path)
        return r
    finally:
        fcntl.flock(lock, fcntl.LOCK_UN)
        lock.close()


def design_pegcore_run(tier, seed):
    import re
    import shutil
    states = trans = 0
    runs = []
    # (Levels, MaxLen, ExcOps, AllCfgs, Stride, Offset, Wide, live)
    # live: the run is checked under FairSpec (weak fairness of the composed step) for the temporal property Termination
    # (every run of a grammar Den does not classify as looping ends, with every event consumed) and the invariant Progress
    # (the machine is never stuck half way) in addition to NoVerdict / ResultOK
    # level 1: every operator (wide set) over the atoms, every configuration; level 2: every unary / binary operator over
    # atoms and level-1 expressions: a seeded 1/Stride sample of the ~1.5 million expressions
    if tier == "quick":
        grid = [(1, 2, "TRUE", "TRUE", 1, 0, "TRUE", False), (2, 2, "TRUE", "FALSE", 500, seed % 500, "TRUE", False),
                (1, 2, "TRUE", "FALSE", 1, 0, "TRUE", True)]
    else:
        grid = [(1, 3, "TRUE", "TRUE", 1, 0, "TRUE", False), (2, 2, "TRUE", "FALSE", 1, 0, "FALSE", False), (2, 2, "TRUE", "FALSE", 40, seed % 40, "TRUE", False),
                (1, 2, "TRUE", "TRUE", 1, 0, "TRUE", True)]
    for (lv, ml, exo, allc, stride, off, wide, live) in grid:
        d = tempfile.mkdtemp(prefix="mcpeg", dir=vlib.CACHE)
        cfg = os.path.join(d, "MC.cfg")
        open(cfg, "w").write("SPECIFICATION %s\nCONSTANTS Levels = %d MaxLen = %d ExcOps = %s AllCfgs = %s Stride = %d Offset = %d Wide = %s\n"
                             "INVARIANTS NoVerdict ResultOK%s\nCHECK_DEADLOCK FALSE\n"
                             % ("FairSpec" if live else "Spec", lv, ml, exo, allc, stride, off, wide, " Progress\nPROPERTY Termination" if live else ""))
        rc, txt = vlib.run(["java", "-XX:+UseParallelGC", "-Xss64m", "-Xmx24g", "-cp", vlib.TLC_JAR, "tlc2.TLC", "-noGenerateSpecTE", "-workers", "16",
                            "-metadir", os.path.join(d, "md"), "-config", cfg, "MC_PegCore.tla"], 14000, cwd=vlib.SPEC)
        shutil.rmtree(d, ignore_errors=True)
        m = re.search(r"(\d+) states generated, (\d+) distinct states found", txt)
        mi = re.search(r"Finished computing initial states: (\d+) distinct", txt)
        if rc != 0 or not m:
            if "is violated" in txt:
                # which property the design breaks: the one named by the contract's verdict; a wrong final result is C01's
                ps = re.findall(r'p \|-> "(C\d\d)"', txt)
                return {"verdicts": [{"p": ps[-1] if ps else "C01",
                                      "why": "design-level: PegMachine composed with PegContract logs a verdict (Levels=%d Wide=%s)" % (lv, wide),
                                      "rule": "PegMachine.tla", "a": txt[-3000:], "b": 0}], "states": states, "transitions": trans}
            raise Broken("TLC failed on MC_PegCore.tla\n" + txt[-1500:])
        trans += int(m.group(1))
        states += int(m.group(2))
        runs.append({"Levels": lv, "MaxLen": ml, "ExcOps": exo, "AllCfgs": allc, "Stride": stride, "Wide": wide,
                     "checked": "NoVerdict ResultOK" + (" Progress; Termination under weak fairness" if live else ""),
                     "runs": int(mi.group(1)) if mi else 0, "distinct": int(m.group(2))})
    return {"states": states, "transitions": trans, "design": {"MC_PegCore.tla": runs}}


def design_pegcore_for(pid):
    def f(tier, seed):
        r = dict(design_pegcore(tier, seed))
        if "verdicts" in r:
            r["verdicts"] = [v for v in r["verdicts"] if v["p"] == pid]
        return r
    return f


def design_analyze(tier, seed):
    """design-level model checking of spec/Analyze.tla against PegDen over all small grammars (no code involved)"""
    import re
    import shutil
    states = trans = 0
    runs = []
    grid = [("FALSE", 2), ("TRUE", 2)] if tier == "quick" else [("FALSE", 3), ("TRUE", 3)]
    for (two, maxlen) in grid:
        d = tempfile.mkdtemp(prefix="mcana", dir=vlib.CACHE)
        cfg = os.path.join(d, "MC.cfg")
        # VisitAll = TRUE: the sor loop as it is in the tree since the fix (the pinned tree's loop is VisitAll = FALSE)
        open(cfg, "w").write("SPECIFICATION Spec\nCONSTANTS VisitAll = TRUE TwoRules = %s MaxLen = %d\nINVARIANT Sound\nCHECK_DEADLOCK FALSE\n" % (two, maxlen))
        rc, txt = vlib.run(["java", "-XX:+UseParallelGC", "-Xss64m", "-cp", vlib.TLC_JAR, "tlc2.TLC", "-noGenerateSpecTE", "-workers", "16", "-metadir", os.path.join(d, "md"),
                            "-config", cfg, "MC_Analyze.tla"], 3000, cwd=vlib.SPEC)
        shutil.rmtree(d, ignore_errors=True)
        m = re.search(r"(\d+) states generated, (\d+) distinct states found", txt)
        if rc != 0 or not m:
            if "is violated" in txt:
                return {"verdicts": [{"p": "C11", "why": "design-level: the analysis model certifies a looping grammar (TwoRules=%s)" % two,
                                      "rule": "Analyze.tla", "a": txt[-2500:], "b": 0}], "states": states, "transitions": trans}
            raise Broken("TLC failed on MC_Analyze.tla\n" + txt[-1500:])
        trans += int(m.group(1))
        states += int(m.group(2))
        runs.append({"TwoRules": two, "MaxLen": maxlen, "grammars": int(m.group(2))})
    return {"states": states, "transitions": trans, "design": {"MC_Analyze.tla": runs}}


PROPS = {
    "C09": {
        "families": ["conv"],
        "level": L_DEN + "convenience rules are defined in the specification by their documented expansions (Desugar), "
                 "instantiated with consuming, consume-then-fail, nullable and raising sub-rules and bounds 0..4",
        "must_count": ["den", "cases"],
        "nontrivial_key": "den",
        "rule": DEN_RULE,
    },
    "C02": {
        "extra": design_pegcore_for("C02"),
        "families": ["ctx", "core", "conv"],
        "must_count": ["req", "look", "cases"],
        "nontrivial_key": "req",
        "level": "at every return of every rule invocation in every recorded run TLC evaluates the rewind contract on the observed "
                 "rewind mode, entry cursor and exit cursor (pointer offset, byte, line, column): required + local failure => unchanged; "
                 "look-ahead rules never move; success never moves backwards.  Library rules are placed in eight rewinding contexts, "
                 "with and without actions",
        "rule": "cases = (rule under test in context | generated grammar) x input x configuration; non-trivial = invocations that "
                "failed locally while rewind_mode::required was requested (the guard's antecedent), counted by TLC",
    },
    "C06": {
        "families": ["eol", "ctx", "core"],
        "must_count": ["pos", "cases"],
        "nontrivial_key": "pos",
        "level": "at every event that carries a cursor (rule entry and exit, control hooks, action inputs, the end of the run, error "
                 "positions) TLC evaluates byte/line/column against the consumed-prefix function PosOf on the recorded input, for all "
                 "five end-of-line policies, eager and lazy tracking; rules consuming LF, CR and CRLF are tried at every offset",
        "rule": "cases = rule under test x input over {a, LF, CR} x eol policy x tracking mode; non-trivial = cursor observations "
                "compared with PosOf by TLC",
    },
    "C05": {
        "extra": design_pegcore_for("C05"),
        "families": ["exc", "mi"],
        "must_count": ["xcs", "raise", "cases"],
        "nontrivial_key": "xcs",
        "level": "Den gives the first must/raise in evaluation order (rule, start of the attempt, nesting) and what each try_catch "
                 "catches; TLC compares, for every invocation an exception passes through and at the end of the run, exception class, "
                 "blamed rule via the message (default / custom error_message), position window, byte/line/column consistency and what(); "
                 "exceptions thrown by actions (parse_error and a foreign type) are part of the corpus",
        "rule": "cases = grammar with must/raise/try_catch constructs (systematic contexts + seeded random) x input x configuration; "
                "non-trivial = rule invocations left by an exception (xc events) validated by TLC",
    },
    "C03": {
        "families": ["oob"],
        "must_count": ["acc", "slices", "cases"],
        "nontrivial_key": "slices",
        "level": "the harness of this family is built with -DTAO_PEGTL_VERIF and AddressSanitizer; the hook reports every peek and "
                 "bump of memory_input / buffer_input with the bytes available in the input's current window (also the inner input of "
                 "rematch and the end lowered by limit_bytes); PegContract has no action for an access outside the window -- it is a "
                 "verdict -- and requires 0 <= cursor <= logical end <= size at every event.  Every library rule, the contrib "
                 "scanners, UTF-16/32 and uintN rules and the shipped json / uri / http grammars run on exact-size heap blocks "
                 "(redzone directly behind the data) and on slices whose surroundings would extend a match; a slice result that "
                 "differs from the denotation of the logical input is a bounds verdict",
        "rule": "cases = rule or grammar x input (all strings to the bound, every truncation and single deletion of sample "
                "documents) x {exact block, slice + four fillers} x {plain, rematch inner input, limit_bytes}; non-trivial = slice runs",
        "note": "raw current()-based reads beyond a lowered end that stay inside the allocation show only through their effect on "
                "the result; a sanitizer abort ends the suite's process and is reported as a crash verdict",
    },
    "C04": {
        "extra": design_pegcore_for("C04"),
        "families": ["act", "core"],
        "must_count": ["act", "cases"],
        "nontrivial_key": "act",
        "level": "for every action call observed through the control (and every action listed in if_apply/apply/apply0) TLC checks: "
                 "actions enabled, rule visible, exactly the attached kind, at most one call per match and exactly one per successful "
                 "match, span = [start of the match, cursor], the rule's body denotes a match of exactly that span, a false return turns "
                 "the match into a failure at its start; surviving derivation follows because every invocation's outcome equals Den",
        "rule": "cases = grammar with void/bool/throwing actions attached to named rules, enable/disable/action<>/at/not_at/if_apply/"
                "apply/apply0 nesting x input x configuration; non-trivial = action invocations validated by TLC",
    },
    "C08": {
        "extra": design_pegcore_for("C08"),
        "families": ["exc", "act", "core", "cov"],
        "must_count": ["hook", "xcs", "cases"],
        "nontrivial_key": "hook",
        "level": "a phase automaton per open invocation (entered, started, applied, ended by success/failure/unwind) is advanced by TLC "
                 "on every hook event; start once and first, success iff returned true, failure iff returned false, unwind iff an "
                 "exception passes (controls with unwind()), raise only from a must-context whose sub-rule just failed or a raise rule, "
                 "nothing for disabled rules; controls with/without unwind, internal rules visible/hidden",
        "rule": "cases = corpus grammar x input x configuration incl. runs ending in exceptions from must rules and from actions; "
                "non-trivial = control hook events validated by TLC",
    },
    "C18": {
        "extra": design_pegcore_for("C18"),
        "families": ["lim"],
        "must_count": ["den", "cases"],
        "nontrivial_key": "den",
        "level": "Den carries the logical end and the guarded depth: limit_depth< N > raises exactly when a guarded rule would run "
                 "nested deeper than N and is transparent otherwise; limit_bytes< N > lets the rule see min(end, start + N); TLC checks on "
                 "every entry that the depth counter equals the number of open guarded invocations and that a byte-limited rule and all "
                 "it calls see exactly that window, and on every return / exception / end of run that end and counter are restored",
        "rule": "cases = recursive grammar x nesting depth 0..N+3 x N in 0..3 (depth), byte-limited rule kind (greedy, look-ahead, "
                "failing, throwing, ...) x start offset x N (bytes), each x configuration; non-trivial = invocations compared with Den",
    },
    "C10": {
        "families": ["obs_codecs"],
        "must_count": ["cases"],
        "nontrivial_key": "cases",
        "level": "declarative accept sets in TLA+ (ASCII classes as documented, RFC 5234 core rules, Unicode Table 3-7 for UTF-8, "
                 "surrogate rules for UTF-16, scalar values for UTF-32, endian-adjusted masked values for uintN, ASCII-only folding "
                 "for istring); TLC judges every recorded peek / rule run pointwise, and the natively aggregated accept sets (all "
                 "three- and four-byte UTF-8 sequences per lead byte; in thorough all 2^32 UTF-32 units) as set equalities",
        "rule": "cases = rule or peek function x input: all bytes per class rule; all 1-byte and boundary-lead 2-byte sequences, the "
                "product of boundary bytes to length 4 and seeded samples for UTF-8; boundary unit pairs and strided single units "
                "for UTF-16; boundary +-2 and random units for UTF-32; exact / off-by-one / swapped / truncated encodings for "
                "8..64-bit binary rules; every byte at every pattern position for istring; every record is judged",
        "note": "template arguments (characters, masks, values) are compile-time: boundary-structured samples only; the native "
                "aggregator for the large spaces is trusted code cross-checked by raw sampled records",
    },
    "C07": {
        "families": ["buf"],
        "must_count": ["cls2", "rd", "cases"],
        "nontrivial_key": "cls2",
        "extra": design_buffer,
        "level": "BufferInput.tla models buffer_input (window, require/discard arithmetic, overflow, a reader that may return fewer "
                 "bytes than asked, zero only at the end) against an arbitrary client; TLC checks the window / reader bounds and the "
                 "refinement of the memory view (a completed size(n) shows min(n, bytes left) unless it overflowed) over every "
                 "reader schedule.  Conformance: every corpus case runs through memory_input and then through buffer_input with "
                 "scripted readers -- including every schedule TLC enumerates for that length -- three chunk sizes, ample and too "
                 "small buffers, and through string/read/mmap/argv/istream/cstream inputs; each run is validated by the same "
                 "PegContract against the same Den, so result, consumed length, action calls, positions and errors must coincide; "
                 "std::overflow_error is tolerated only when the buffer is smaller than input + look-ahead",
        "rule": "cases = grammar x input x input class / chunk / maximum / reader schedule; non-trivial = runs through a class other "
                "than the plain memory input",
        "note": "mmap, stdio and argv plumbing are exercised as trace producers, not modelled",
    },
    "C11": {
        "families": ["ana"],
        "extra": design_analyze,
        "must_count": ["ana", "anacert", "analoop", "cases"],
        "nontrivial_key": "anacert",
        "level": "for every corpus grammar the real analyze< G >() is called and its verdict recorded; every input up to the bound is "
                 "then parsed by the real code under a fuel limit (events and nesting) and evaluated by Den, which reports re-entry "
                 "of an open (rule, position) and iterations that match the empty string; TLC requires: zero problems => no run cut "
                 "by the fuel and no no-progress verdict from Den.  The corpus contains left recursion through every combinator "
                 "(direct, behind nullable prefixes, in later alternatives, indirect), nullable bodies under every repetition, and "
                 "seeded random grammars, terminating or not.  Design level: Analyze.tla transcribes analyze_traits and work(); TLC checks "
                 "over all one-rule grammars with bodies of depth <= 2 and all two-rule grammars with bodies of depth <= 1 (operators "
                 "seq sor opt star plus at not_at) that zero problems implies no no-progress verdict of Den on any input to the bound",
        "rule": "cases = grammar x input; non-trivial = runs of grammars the analysis certified (zero problems)",
    },
    "C12": {
        "families": ["tree"],
        "must_count": ["tree", "cases"],
        "nontrivial_key": "tree",
        "level": "every case is run twice: traced (each invocation validated against Den, from which TLC builds the surviving "
                 "derivation of the selected rules: successful invocations whose ancestors all succeeded, including those inside a "
                 "succeeding and-predicate, with the documented effect of store/remove_content, fold_one, discard_empty) and through "
                 "parse_tree::parse; TLC requires: tree iff the plain parse succeeds, exception iff it throws, node list equal to the "
                 "derivation in order, nesting and spans (containment / ordering follow where they apply: nodes made inside a "
                 "succeeding and-predicate legitimately extend beyond their ancestors)",
        "rule": "cases = grammar with selector kinds on named rules (recursion deeper than the 8-level leaf optimisation, nested "
                "brackets, backtracking / look-ahead / caught exceptions around selected rules, seeded random) x input x {selector by "
                "rule, all rules selected, with throwing actions}; non-trivial = trees compared",
        "note": "parse_tree_to_dot is not covered",
    },
    "C13": {
        "extra": design_pegcore_for("C13"),
        "families": ["st", "act"],
        "must_count": ["state", "act", "cases"],
        "nontrivial_key": "state",
        "level": "TLC checks on every rule entry that apply mode, action family, control family and innermost state observed for a "
                 "sub-rule are exactly what the enclosing invocation prescribes (at/not_at/enable/disable/action<>/control<>, "
                 "change_action*, change_control, enable_action, disable_action), hence nothing leaks to siblings or later rules; the "
                 "life cycle of an instrumented state object (constructed once at the start of the attached rule's attempt with the "
                 "outer states, success exactly once iff matched -- action-based variants only with actions enabled -- with the "
                 "cursor after the match, destroyed before the rule returns or unwinds) is a per-invocation automaton; every action "
                 "must receive the innermost live instance; outcomes are compared with Den, which applies the switches",
        "rule": "cases = grammar with state<>, change_state(s), change_action(_and_state(s)), change_control, enable/disable_action "
                "on named rules, nested with backtracking, predicates, disabled sections and exceptions x input x configuration; "
                "non-trivial = state life-cycle events validated",
    },
    "C14": {
        "families": ["obs_json"],
        "must_count": ["cases"],
        "nontrivial_key": "cases",
        "level": "RFC 8259 is written in TLA+ as a set-valued recogniser (Json8259: union for alternatives, relational composition "
                 "for concatenation, closure for repetition, UTF-8 well-formedness from Table 3-7), i.e. language-exact and "
                 "independent of PEG ordering; TLC decides membership for every input and compares it with what the real "
                 "seq< json::text, eof > returned (accept / reject, never an exception)",
        "rule": "cases = byte string: all strings over 24 representative bytes to the bound, every byte in five syntactic positions, "
                "grammar-derived documents (nesting <= 3) with six single-edit mutations each, the repository's sample files; every "
                "record is judged",
    },
    "C20": {
        "families": ["obs_uri"],
        "must_count": ["cases"],
        "nontrivial_key": "cases",
        "level": "RFC 3986 Appendix A is written in TLA+ as a set-valued recogniser (Uri3986) for URI, URI-reference, absolute-URI, "
                 "IPv4address and IPv6address; TLC decides derivability for every input and compares it with the result of the real "
                 "rule followed by eof (a parse_error counts as rejection, any other exception is a violation)",
        "rule": "cases = rule x string: all strings over {a 1 : / ? # [ ] @ . % -} to the bound, products of interesting octets for "
                "IPv4, every IPv6 shape (groups left/right of ::, embedded IPv4, group lengths 1/4/5, bad groups), URIs sampled "
                "from the RFC grammar with four single-edit mutations each; every record is judged",
    },
    "C19": {
        "families": ["obs_lines"],
        "must_count": ["cases"],
        "nontrivial_key": "cases",
        "level": "for every string over {LF, CR, a} up to the bound, every position 0..size (reached by consuming), five end-of-line "
                 "policies, eager and lazy tracking, default and non-default initial counters, TLC compares at(), begin_of_line(), "
                 "end_of_line() and line_at() with the declarative line splitter (Lines in ObsContract) and checks that every "
                 "returned pointer lies inside [data, data + size]",
        "rule": "cases = input x position x eol policy x tracking x initial counters (exhaustive to the length bound); every record "
                "is non-trivial (four helper results judged)",
        "exhaustive": True,
    },
    "C17": {
        "families": ["obs_unescape"],
        "must_count": ["cases"],
        "nontrivial_key": "cases",
        "level": "TLC checks every recorded call of utf8_append_utf32 (all boundaries, sampled or all code points), unescape_j on all "
                 "sequences of 1..3 escapes from 15 boundary classes, unescape_u/x, unhex_string and unescape_c against the "
                 "declarative UTF-8 encoder, the surrogate pairing rule and the hex/escape tables of ObsContract",
        "rule": "cases = helper call with its arguments; non-trivial = every record",
    },
    "C16": {
        "families": ["obs_raw", "ctx"],
        "must_count": ["cases"],
        "nontrivial_key": "cases",
        "level": "the declarative long-bracket definition (opening bracket of level n, one leading line ending skipped, FIRST closing "
                 "bracket of the same level, content span, other levels ignored, no close => local failure consuming nothing) is "
                 "evaluated by TLC for every recorded run of raw_string (default and custom characters, with and without content "
                 "rules, five eol policies) and compared with result, consumed length and the span given to the content action",
        "rule": "cases = raw_string variant x input (all strings over the bracket/marker/newline/other alphabet to the bound + seeded "
                "long strings) x eol policy; non-trivial = every record",
    },
    "C15": {
        "families": ["obs_integer", "ctx"],
        "must_count": ["cases"],
        "nontrivial_key": "cases",
        "level": "numeral syntax by the denotation of the documented grammar; values compared as decimal digit strings: every "
                 "recorded run of the integer rules / actions for 8..64 bit signed and unsigned targets and explicit maxima must "
                 "either store exactly the numeral's value or report overflow (exception, or local failure for maximum_rule)",
        "rule": "cases = rule or action x target type / Maximum x input (exhaustive small numerals x signs x trailing byte, boundary "
                "neighbourhoods of every type limit and power of ten); non-trivial = every record",
    },
    "C01": {
        "extra": design_pegcore_for("C01"),
        "families": ["core"],
        "level": L_DEN + "all depth<=1 grammars over the core operators and atoms plus a seeded sample of deeper, recursive "
                 "grammars, crossed with apply mode, top-level rewind mode and void-action attachment",
        "must_count": ["den", "cases"],
        "nontrivial_key": "den",
        "rule": "cases = generated grammar x input string x configuration; counted as non-trivial: rule invocations whose "
                "observed outcome was compared with the denotation (Den) by TLC",
    },
}
